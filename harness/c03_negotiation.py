"""C03 - offer/answer yields a consistent, connectable session for every configuration.

Specs: specs/Negotiation.tla (A-level predicate ValidAnswer + clauses, and an
implementation-shaped model M of createOffer / setRemoteDescription / createAnswer /
setLocalDescription on a pair of peers), specs/TraceNegotiation.tla (verdict function).

quick / thorough:
  1. TLC enumerates the abstract configuration space (what both peers created, bundle
     policies, payload-type tables, codec preferences, follow-up rounds), runs the model's
     negotiation on every configuration and checks ValidAnswer, signalling states and
     complementary directions as invariants (+ witnesses, -coverage, deviation constants).
  2. spec -> code: configurations chosen by TLC (`-simulate`) are executed on REAL
     RTCPeerConnection pairs (loopback ICE, real DTLS/SCTP); offers and answers travel as
     SDP text only; local/remote descriptions are projected through
     aiortc.sdp.SessionDescription.parse onto the abstract fields; the model's expected
     descriptions are compared with the real ones (agreement measure).
  3. code -> spec: those executions plus seeded random configurations of larger size are
     judged by TraceNegotiation.tla with TLC.  Only its clauses produce VIOLATION.
  4. binding self-test: corrupted copies of a recorded trace must be rejected.
"""
MANIFEST = dict(
    technique="TLA+ spec Negotiation.tla (ValidAnswer predicate + implementation-shaped model of JSEP offer/answer on a peer pair) model-checked with TLC over the abstract configuration space; TLC-chosen and seeded random configurations executed on real RTCPeerConnection pairs over loopback (SDP text only); recorded descriptions, states, directions and data channel traffic judged by TraceNegotiation.tla (TLC trace validation)",
    text="Exhaustive TLC enumeration of a bounded configuration space (transceivers x kind x direction x addTrack/addTransceiver x data channels x codec preferences x bundle policies x payload-type tables on both peers, follow-up rounds that add media or swap the offerer): the model's answer satisfies ValidAnswer, both peers end stable with complementary directions. Conformance in both directions on real peer connections: every real answer is judged against the real offer by the TLA+ clauses (sections/BUNDLE mirror, codecs, payload types, RTX base, feedback, extensions and ids, DTLS setup), then states, current directions, connectionState and a message each way on every data channel.",
    note="Trusted: TLC, aiortc.sdp.SessionDescription.parse as projection of SDP text (its own round trip is C09), loopback UDP of the sandbox. Media flow is not asserted (tracks never produce frames). A peer with a different payload-type / extension-id table is simulated by swapping the module-level tables of aiortc.rtcpeerconnection around that peer's API calls. Codec preference sets of matched transceivers always intersect (disjoint preferences are outside the quantifier). Timeout clauses are re-run twice before they count. Conformance is sampled; the design check is exhaustive within the stated constants.",
    design_ref="5/C03")

import asyncio  # noqa: E402
import contextlib  # noqa: E402
import copy  # noqa: E402
import json  # noqa: E402
import os  # noqa: E402
import sys  # noqa: E402
import time  # noqa: E402

from . import common  # noqa: F401,E402  (sets sys.path for aiortc)
from .common import Report, rng, seed, tier  # noqa: E402
from . import tlc as T  # noqa: E402

KINDS = ("audio", "video")
DIRS = ("inactive", "sendonly", "recvonly", "sendrecv")
POLICIES = ("balanced", "max-compat", "max-bundle")

# codec preference tokens -> list of (mimeType, profile-level-id or None)
PREFS = {
    "none": [],
    "vp8": [("video/VP8", None)],
    "vp8rtx": [("video/VP8", None), ("video/rtx", None)],
    "h264": [("video/H264", "42001f"), ("video/H264", "42e01f")],
    "h264rtx": [("video/H264", "42001f"), ("video/H264", "42e01f"), ("video/rtx", None)],
    "h264b_vp8rtx": [("video/H264", "42e01f"), ("video/VP8", None), ("video/rtx", None)],
    "opus": [("audio/opus", None)],
    "g711": [("audio/PCMU", None), ("audio/PCMA", None)],
    "pcma_pcmu": [("audio/PCMA", None), ("audio/PCMU", None)],
    "g722_opus": [("audio/G722", None), ("audio/opus", None)],
}
PREF_KIND = {"vp8": "video", "vp8rtx": "video", "h264": "video", "h264rtx": "video", "h264b_vp8rtx": "video",
             "opus": "audio", "g711": "audio", "pcma_pcmu": "audio", "g722_opus": "audio"}

T_CONNECT = 12.0     # bound for both peers to reach "connected"
T_CHANNEL = 8.0      # bound for channels to open / carry a message once connected
T_SETTLE = 1.0      # grace period once every transport of the session has settled
T_CALL = 20.0        # bound for one API call (gathering included)
T_CLOSE = 10.0
T_JOB = 150          # seconds, watchdog for one configuration (all rounds + close)


def _dbg(*a):
    if os.environ.get("C03_DEBUG"):
        print("[c03 %.1f]" % time.time(), *a, file=sys.stderr, flush=True)


# ----------------------------------------------------------------------------- tables

_TABLES = {}


def _tables():
    """std = the tree's own tables; alt = a peer built with other payload types / ids.

    alt keeps static payload types (0, 8, 9), moves every dynamic one inside 96..127 and
    permutes the extension ids inside 1..14 (shared id space across kinds, as BUNDLE needs).
    The numbers deliberately overlap with std with a different meaning."""
    if _TABLES:
        return _TABLES
    import aiortc.rtcpeerconnection as pcmod
    from aiortc.codecs import is_rtx
    std_c, std_x = pcmod.CODECS, pcmod.HEADER_EXTENSIONS
    alt_c = copy.deepcopy(std_c)
    for kind, shift in (("audio", 15), ("video", 3)):
        remap = {}
        for c in alt_c[kind]:
            if c.payloadType >= 96:
                remap[c.payloadType] = c.payloadType + shift
        for c in alt_c[kind]:
            if c.payloadType in remap:
                c.payloadType = remap[c.payloadType]
            if is_rtx(c) and c.parameters.get("apt") in remap:
                c.parameters = dict(c.parameters)
                c.parameters["apt"] = remap[c.parameters["apt"]]
    alt_x = copy.deepcopy(std_x)
    ids = {}
    for kind in alt_x:
        for x in alt_x[kind]:
            ids.setdefault(x.uri, None)
    perm = {}
    for kind in std_x:
        for x in std_x[kind]:
            perm[x.uri] = x.id
    order = sorted(perm, key=lambda u: perm[u])
    # rotate the ids: first uri gets 4, the others take the previous one's id
    new = {}
    for i, u in enumerate(order):
        new[u] = 4 if i == 0 else perm[order[i - 1]]
    for kind in alt_x:
        for x in alt_x[kind]:
            x.id = new[x.uri]
    _TABLES.update(std=(std_c, std_x), alt=(alt_c, alt_x))
    return _TABLES


@contextlib.contextmanager
def acting(tab):
    """Make the library tables those of the peer that is about to act."""
    import aiortc.rtcpeerconnection as pcmod
    tabs = _tables()
    c, x = tabs[tab]
    old = (pcmod.CODECS, pcmod.HEADER_EXTENSIONS)
    pcmod.CODECS, pcmod.HEADER_EXTENSIONS = c, x
    try:
        yield
    finally:
        pcmod.CODECS, pcmod.HEADER_EXTENSIONS = old


# ----------------------------------------------------------------------------- projection

EMPTY_DESC = {"media": [], "bundle": []}


def project(sdp_text):
    """SDP text -> abstract description (via the library's own parser)."""
    from aiortc import sdp as S
    d = S.SessionDescription.parse(sdp_text)
    media = []
    for m in d.media:
        sec = {"kind": m.kind, "mid": m.rtp.muxId if m.rtp.muxId is not None else "",
               "dir": m.direction or "none",
               "setup": S.DTLS_ROLE_SETUP.get(m.dtls.role, "none") if m.dtls is not None else "none",
               "codecs": [], "exts": []}
        if m.kind in KINDS:
            for c in m.rtp.codecs:
                sub = c.mimeType.split("/", 1)[1].lower()
                name = "%s/%d" % (sub, c.clockRate)
                if c.channels and c.channels != 1:
                    name += "/%d" % c.channels
                apt = c.parameters.get("apt") if sub == "rtx" else None
                fb = []
                for f in c.rtcpFeedback:
                    fb.append(f.type + ((" " + f.parameter) if f.parameter else ""))
                sec["codecs"].append({"name": name, "pt": int(c.payloadType), "rtx": sub == "rtx",
                                      "rtxOf": int(apt) if isinstance(apt, int) else -1,
                                      "prof": str(c.parameters.get("profile-level-id", "")),
                                      "fb": fb})
            for x in m.rtp.headerExtensions:
                sec["exts"].append({"uri": x.uri, "id": int(x.id)})
        media.append(sec)
    bundle = [[str(i) for i in g.items] for g in d.group if g.semantic == "BUNDLE"]
    return {"media": media, "bundle": bundle}


# ----------------------------------------------------------------------------- executor


def _make_track(kind):
    from aiortc.mediastreams import MediaStreamTrack

    class SilentTrack(MediaStreamTrack):
        """A track that never produces a frame (media flow is not asserted)."""

        async def recv(self):
            await asyncio.Event().wait()

    SilentTrack.kind = kind
    return SilentTrack()


def _capabilities(kind, pref):
    from aiortc.rtcrtpsender import RTCRtpSender
    caps = RTCRtpSender.getCapabilities(kind).codecs
    out = []
    for mime, prof in PREFS[pref]:
        for c in caps:
            if c.mimeType.lower() == mime.lower() and (prof is None or c.parameters.get("profile-level-id") == prof):
                out.append(c)
                break
    return out


class Peer:
    def __init__(self, name, spec):
        from aiortc import RTCBundlePolicy, RTCConfiguration, RTCPeerConnection
        self.name = name
        self.tab = spec.get("tab", "std")
        self.policy = spec["bundle"]
        self.pc = RTCPeerConnection(RTCConfiguration(iceServers=[], bundlePolicy=RTCBundlePolicy(spec["bundle"])))
        self.channels = {}      # label -> RTCDataChannel created here
        self.remote = {}        # label -> RTCDataChannel announced by the other side
        self.got = {}           # label -> set of payloads received
        self.nchan = 0

        @self.pc.on("datachannel")
        def on_dc(ch):
            self.remote[ch.label] = ch
            self._listen(ch)

    def _listen(self, ch):
        got = self.got.setdefault(ch.label, set())

        @ch.on("message")
        def on_msg(msg):
            got.add(msg)
            if isinstance(msg, str) and msg.startswith("ping:"):
                try:
                    ch.send("pong:" + msg[5:])
                except Exception as e:  # recorded as a missing pong
                    _dbg("pong failed", e)

    def apply(self, items):
        """Execute the 'created beforehand' operations of one round."""
        with acting(self.tab):
            for it in items:
                how = it["how"]
                if how == "dc":
                    label = "%s%d" % (self.name, self.nchan)
                    self.nchan += 1
                    ch = self.pc.createDataChannel(label)
                    self.channels[label] = ch
                    self._listen(ch)
                    continue
                if how == "track":
                    sender = self.pc.addTrack(_make_track(it["kind"]))
                    tr = next(t for t in self.pc.getTransceivers() if t.sender is sender)
                elif how == "trx":
                    tr = self.pc.addTransceiver(it["kind"], direction=it["dir"])
                elif how == "trxtrack":
                    tr = self.pc.addTransceiver(_make_track(it["kind"]), direction=it["dir"])
                else:
                    raise ValueError(how)
                if it.get("pref", "none") != "none":
                    tr.setCodecPreferences(_capabilities(it["kind"], it["pref"]))


async def _wait(pred, timeout, stop=None):
    t0 = time.monotonic()
    while True:
        if pred():
            return True
        if stop is not None and stop():
            return pred()
        if time.monotonic() - t0 > timeout:
            return pred()
        await asyncio.sleep(0.004)


def _st(tp):
    return tp.state if tp is not None else "none"


def _ice(tp):
    return tp.transport.state if tp is not None and tp.transport is not None else "none"


def _observe(peer, desc):
    """Cheap facts about the real objects (used for signatures / agreement, not by the oracle)."""
    pc = peer.pc
    by_mid = {}
    assoc = set()
    idle = []
    for t in pc.getTransceivers():
        tp = t.receiver.transport
        if t.mid is None:
            idle.append(tp)
        else:
            by_mid[t.mid] = tp
            assoc.add(id(tp))
    if pc.sctp is not None:
        if pc.sctp.mid is None:
            idle.append(pc.sctp.transport)
        else:
            by_mid[pc.sctp.mid] = pc.sctp.transport
            assoc.add(id(pc.sctp.transport))
    tagged = desc["bundle"][0][0] if desc["bundle"] and desc["bundle"][0] else ""
    return {"policy": peer.policy, "unassoc": sum(1 for t in pc.getTransceivers() if t.mid is None),
            "sctp_unassoc": pc.sctp is not None and pc.sctp.mid is None,
            "idle_new": any(id(tp) not in assoc and _st(tp) == "new" for tp in idle),
            "tstates": [_st(by_mid[m["mid"]]) if m["mid"] in by_mid else "none" for m in desc["media"]],
            "primary": _st(by_mid[tagged]) if tagged in by_mid else "none",
            "primary_ice": _ice(by_mid[tagged]) if tagged in by_mid else "none",
            "conn": pc.connectionState, "sig": pc.signalingState}


def _exc(call, e):
    return "%s:%s:%s" % (call, type(e).__name__, str(e)[:120])


async def _round(A, B, rd, idx, bg):
    """One offer/answer round.  Returns the round record."""
    from aiortc import RTCSessionDescription
    peers = {"A": A, "B": B}
    off = peers[rd["offerer"]]
    ans = peers["B" if rd["offerer"] == "A" else "A"]
    rec = {"offerer": rd["offerer"], "exc": "", "offer": EMPTY_DESC, "offer_seen": EMPTY_DESC,
           "answer": EMPTY_DESC, "answer_seen": EMPTY_DESC,
           "sigOff": "", "sigAns": "", "dirs": [], "connOff": "", "connAns": "", "chans": [], "bg": []}
    call = "create"
    try:
        A.apply(rd.get("addA", []))
        B.apply(rd.get("addB", []))
        call = "createOffer"
        with acting(off.tab):
            offer = await asyncio.wait_for(off.pc.createOffer(), T_CALL)
        call = "setLocal(offer)"
        with acting(off.tab):
            await asyncio.wait_for(off.pc.setLocalDescription(offer), T_CALL)
        rec["offer"] = project(off.pc.localDescription.sdp)
        call = "setRemote(offer)"
        text = off.pc.localDescription.sdp
        with acting(ans.tab):
            await asyncio.wait_for(ans.pc.setRemoteDescription(RTCSessionDescription(sdp=text, type="offer")), T_CALL)
        rec["offer_seen"] = project(ans.pc.remoteDescription.sdp)
        call = "createAnswer"
        with acting(ans.tab):
            answer = await asyncio.wait_for(ans.pc.createAnswer(), T_CALL)
        call = "setLocal(answer)"
        with acting(ans.tab):
            await asyncio.wait_for(ans.pc.setLocalDescription(answer), T_CALL)
        rec["answer"] = project(ans.pc.localDescription.sdp)
        call = "setRemote(answer)"
        text = ans.pc.localDescription.sdp
        with acting(off.tab):
            await asyncio.wait_for(off.pc.setRemoteDescription(RTCSessionDescription(sdp=text, type="answer")), T_CALL)
        rec["answer_seen"] = project(off.pc.remoteDescription.sdp)
    except Exception as e:  # an API call of the exchange raised
        rec["exc"] = _exc(call, e)
        rec["sigOff"], rec["sigAns"] = off.pc.signalingState, ans.pc.signalingState
        rec["bg"] = list(bg)
        rec["obsOff"], rec["obsAns"] = _observe(off, rec["offer"]), _observe(ans, rec["offer"])
        return rec

    rec["sigOff"], rec["sigAns"] = off.pc.signalingState, ans.pc.signalingState

    def cur(peer, mid):
        for t in peer.pc.getTransceivers():
            if t.mid == mid:
                return t.currentDirection or "none"
        return "none"

    for m in rec["answer"]["media"]:
        if m["kind"] in KINDS:
            rec["dirs"].append({"mid": m["mid"], "off": cur(off, m["mid"]), "ans": cur(ans, m["mid"])})

    # --- the session connects
    def dead():
        return any(p.pc.connectionState in ("failed", "closed") for p in (off, ans))

    tagged = rec["answer"]["bundle"][0][0] if rec["answer"]["bundle"] and rec["answer"]["bundle"][0] else None

    def session_transports(peer):
        """(DTLS transports of the sections of the session, the BUNDLE-tagged section's transport)"""
        tps, prim = [], None
        for t in peer.pc.getTransceivers():
            if t.mid is not None:
                tps.append(t.receiver.transport)
                if t.mid == tagged:
                    prim = t.receiver.transport
        if peer.pc.sctp is not None and peer.pc.sctp.mid is not None:
            tps.append(peer.pc.sctp.transport)
            if peer.pc.sctp.mid == tagged:
                prim = peer.pc.sctp.transport
        return tps, prim

    def gone(tp):
        return _st(tp) in ("closed", "failed", "none") or _ice(tp) in ("closed", "failed", "none")

    def settled():
        """Nothing more can happen to connectionState: the transport of the BUNDLE-tagged
        section is gone on one side, or every transport of the session that still exists has
        completed its handshake."""
        alive = []
        for p in (off, ans):
            tps, prim = session_transports(p)
            if tagged is not None and gone(prim):
                return True
            alive += [tp for tp in tps if not gone(tp)]
        return bool(alive) and all(_st(tp) == "connected" for tp in alive)

    def both_connected():
        return off.pc.connectionState == "connected" and ans.pc.connectionState == "connected"

    await _wait(both_connected, T_CONNECT, stop=lambda: dead() or settled())
    if not both_connected():
        await _wait(both_connected, T_SETTLE, stop=dead)      # grace period after the handshakes
    rec["connOff"], rec["connAns"] = off.pc.connectionState, ans.pc.connectionState
    connected = rec["connOff"] == "connected" and rec["connAns"] == "connected"
    negotiated = any(m["kind"] == "application" for m in rec["answer"]["media"])

    chans = []
    for creator, other in ((A, B), (B, A)):
        for label, ch in creator.channels.items():
            chans.append((creator, other, label, ch))
    if connected and negotiated and chans:
        await _wait(lambda: all(ch.readyState == "open" and label in other.remote
                                and other.remote[label].readyState == "open"
                                for creator, other, label, ch in chans), T_CHANNEL, stop=dead)
        token = "r%d" % idx
        for creator, other, label, ch in chans:
            if ch.readyState == "open":
                try:
                    ch.send("ping:%s:%s" % (token, label))
                except Exception as e:
                    _dbg("ping failed", e)
        await _wait(lambda: all(("ping:%s:%s" % (token, label)) in other.got.get(label, ())
                                and ("pong:%s:%s" % (token, label)) in creator.got.get(label, ())
                                for creator, other, label, ch in chans), T_CHANNEL, stop=dead)
        for creator, other, label, ch in chans:
            rec["chans"].append({
                "label": label, "by": creator.name,
                "open": ch.readyState == "open",
                "ropen": label in other.remote and other.remote[label].readyState == "open",
                "ping": ("ping:%s:%s" % (token, label)) in other.got.get(label, ()),
                "pong": ("pong:%s:%s" % (token, label)) in creator.got.get(label, ())})
    else:
        for creator, other, label, ch in chans:
            rec["chans"].append({"label": label, "by": creator.name, "open": False, "ropen": False,
                                 "ping": False, "pong": False})
    rec["bg"] = list(bg)
    rec["obsOff"], rec["obsAns"] = _observe(off, rec["answer"]), _observe(ans, rec["answer"])
    return rec


class Watchdog(Exception):
    """A configuration did not finish within T_JOB (something blocks the event loop)."""


async def _execute(cfg, rounds, progress):
    loop = asyncio.get_running_loop()
    bg = []

    def handler(lp, ctx):
        e = ctx.get("exception")
        bg.append(("%s:%s" % (type(e).__name__, str(e)[:100])) if e else str(ctx.get("message"))[:100])

    loop.set_exception_handler(handler)
    A = Peer("A", cfg["A"])
    B = Peer("B", cfg["B"])
    try:
        for idx, rd in enumerate(cfg["rounds"]):
            progress["phase"] = "round%d" % idx
            rec = await _round(A, B, rd, idx, bg)
            rounds.append(rec)
            if rec["exc"]:
                break
    finally:
        progress["phase"] = "closing"
        for p in (A, B):
            try:
                await asyncio.wait_for(p.pc.close(), T_CLOSE)
            except Exception as e:
                _dbg("close failed", repr(e))
        for p in (A, B):
            for t in p.pc.getTransceivers():
                if t.sender.track is not None:
                    t.sender.track.stop()
        await asyncio.sleep(0)
    return rounds


def execute(cfg):
    """Run one configuration on a fresh event loop; returns (round records, note).

    A watchdog (SIGALRM) bounds the whole job: close() of a damaged connection may block the
    loop in a thread join.  Everything recorded before `closing` is kept (close() is C19's
    subject, not judged here); a job that blocks earlier cannot be judged."""
    import signal
    rounds, progress = [], {"phase": "start"}

    def on_alarm(signum, frame):
        raise Watchdog(progress["phase"])

    old = signal.signal(signal.SIGALRM, on_alarm)
    signal.alarm(T_JOB)
    loop = asyncio.new_event_loop()
    note = ""
    try:
        asyncio.set_event_loop(loop)
        try:
            loop.run_until_complete(_execute(cfg, rounds, progress))
        except Watchdog as w:
            if str(w) != "closing":
                raise
            note = "close() did not return within the job bound"
    finally:
        signal.alarm(0)
        signal.signal(signal.SIGALRM, old)
        try:
            if not note:
                pending = [t for t in asyncio.all_tasks(loop) if not t.done()]
                for t in pending:
                    t.cancel()
                if pending:
                    loop.run_until_complete(asyncio.wait_for(asyncio.gather(*pending, return_exceptions=True), 5))
        except BaseException:
            pass
        asyncio.set_event_loop(None)
        if not note:
            try:
                loop.close()
            except Exception:
                pass
    return rounds, note


# ----------------------------------------------------------------------------- configurations

FAMILIES = {
    "video": [["vp8", "vp8rtx", "h264b_vp8rtx"], ["h264", "h264rtx", "h264b_vp8rtx"]],
    "audio": [["opus", "g722_opus"], ["g711", "pcma_pcmu"]],
}


def random_items(r, n, fam, dc_prob, allow_pref=True):
    """n media operations (+ data channel creations) in random order."""
    items = []
    for _ in range(n):
        kind = r.choice(KINDS)
        how = r.choice(("track", "trx", "trx", "trxtrack"))
        it = {"how": how, "kind": kind}
        if how != "track":
            it["dir"] = r.choice(DIRS)
        if allow_pref and r.random() < 0.45:
            it["pref"] = r.choice(fam[kind])
        items.append(it)
    ndc = 0
    if r.random() < dc_prob:
        ndc = 1 if r.random() < 0.8 else 2
    for _ in range(ndc):
        items.insert(r.randint(0, len(items)), {"how": "dc"})
    return items


def random_config(r, max_t=4):
    """A seeded random configuration, bigger than the model's space.

    Codec preferences of one kind are drawn from a family of pairwise intersecting sets,
    so that no pair of matched transceivers has disjoint preferences."""
    fam = {k: r.choice(FAMILIES[k]) for k in KINDS}
    cfg = {"A": {"bundle": r.choice(POLICIES), "tab": r.choice(("std", "alt"))},
           "B": {"bundle": r.choice(POLICIES), "tab": r.choice(("std", "std", "alt"))},
           "rounds": []}
    while True:
        a = random_items(r, r.randint(0, max_t), fam, 0.5)
        if a:
            break
    shape = r.random()
    if shape < 0.45:
        b = random_items(r, 0, fam, 0.3)
    elif shape < 0.8:
        # answerer prepared for (a prefix of) what the offerer will offer: same kinds
        kinds = [it["kind"] for it in a if it["how"] != "dc"]
        b = []
        for k in kinds[:r.randint(0, len(kinds))]:
            it = {"how": r.choice(("track", "trx", "trxtrack")), "kind": k}
            if it["how"] != "track":
                it["dir"] = r.choice(DIRS)
            if r.random() < 0.4:
                it["pref"] = r.choice(fam[k])
            b.append(it)
        if r.random() < 0.35:
            b.insert(r.randint(0, len(b)), {"how": "dc"})
    else:
        b = random_items(r, r.randint(0, 2), fam, 0.4)
    cfg["rounds"].append({"offerer": "A", "addA": a, "addB": b})
    offerer = "A"
    for _ in range(r.choice((0, 0, 1, 1, 2))):
        if r.random() < 0.5:
            offerer = "B" if offerer == "A" else "A"     # swap the offering side
        add_off = random_items(r, r.randint(0, 2), fam, 0.3)
        add_ans = random_items(r, r.randint(0, 1), fam, 0.15) if r.random() < 0.3 else []
        rd = {"offerer": offerer, "addA": add_off if offerer == "A" else add_ans,
              "addB": add_off if offerer == "B" else add_ans}
        cfg["rounds"].append(rd)
    return cfg


def _c(a_pol, b_pol, *rounds, ta="std", tb="std"):
    return {"A": {"bundle": a_pol, "tab": ta}, "B": {"bundle": b_pol, "tab": tb},
            "rounds": [{"offerer": o, "addA": a, "addB": b} for o, a, b in rounds]}


_TA, _TV, _DC = {"how": "track", "kind": "audio"}, {"how": "track", "kind": "video"}, {"how": "dc"}

# Inputs that failed on some version of the tree; always executed.
REGRESS = [
    # answerer owns a transceiver of a kind absent from the offer: setLocalDescription(answer)
    # raised ValueError('None is not in list') (repaired in /repo by 5f41dab)
    _c("balanced", "max-bundle", ("A", [_TV], [_TA])),
    _c("max-compat", "max-bundle", ("A", [_TV, _DC], [_TA, _TV, _TV]), ("B", [], [])),
    # F03-maxbundle-primary-transport-stopped
    _c("max-bundle", "balanced", ("A", [_DC, _TA], [])),
    _c("balanced", "max-bundle", ("A", [_TA, _DC], [_DC])),
    _c("max-compat", "max-bundle", ("A", [_TA], [_DC]), ("A", [_DC], [])),
    _c("balanced", "max-bundle", ("A", [_TV], [_TA, {"how": "trx", "kind": "video", "dir": "sendrecv"}]), ("B", [], [])),
    # F03-unnegotiated-transport-counts
    _c("balanced", "balanced", ("A", [_TA], [_DC])),
    _c("balanced", "max-compat", ("A", [_TV, _DC], [_TA]), ("B", [], [])),
]


# ----------------------------------------------------------------------------- pool


def _worker(job):
    """Executed in a pool process: run one configuration, return its trace."""
    tid, src, cfg = job
    t0 = time.time()
    note = ""
    try:
        rounds, note = execute(cfg)
        err = ""
    except Exception as e:  # harness/machinery problem, not a verdict
        rounds = []
        err = "%s:%s" % (type(e).__name__, str(e)[:200])
    return {"id": tid, "src": src, "cfg": cfg, "rounds": rounds, "err": err, "note": note,
            "wall": round(time.time() - t0, 3)}


def make_pool(nproc):
    import concurrent.futures as cf
    import multiprocessing as mp
    return cf.ProcessPoolExecutor(max_workers=nproc, mp_context=mp.get_context("fork"))


def run_jobs(pool, jobs):
    return list(pool.map(_worker, jobs, chunksize=1))


# ----------------------------------------------------------------------------- TLC configurations

MODEL_CFG = """SPECIFICATION Spec
CONSTANTS
 MaxA = %(maxa)d
 MaxB = %(maxb)d
 MaxAdd = %(maxadd)d
 MaxAddAns = %(maxaddans)d
 Hows = %(hows)s
 Dirs = %(dirs)s
 APrefsAudio = %(apa)s
 APrefsVideo = %(apv)s
 BPrefsAudio = %(bpa)s
 BPrefsVideo = %(bpv)s
 PoliciesA = %(pola)s
 PoliciesB = %(polb)s
 TabsA = %(taba)s
 TabsB = %(tabb)s
 FollowUps = %(follow)s
 Deviations = %(dev)s
VIEW View
%(props)s
CHECK_DEADLOCK FALSE
"""

PROPS = "\n".join("INVARIANT " + i for i in (
    "RoundsOK", "OrderPreserved", "MidsUnique", "RolesComplementary", "DirectionsWithinOffer",
    "NoSectionOnStoppedTransport"))

ALLPOL = '{"balanced","max-compat","max-bundle"}'
ALLDIRS = '{"inactive","sendonly","recvonly","sendrecv"}'

# "structure": every kind / creation call / data channel / policy / order, follow-up rounds
STRUCT = dict(maxa=2, maxb=1, maxadd=1, maxaddans=0, hows='{"track","trx","dc"}', dirs='{"sendrecv"}',
              apa="{}", apv="{}", bpa="{}", bpv="{}", pola=ALLPOL, polb=ALLPOL, taba='{"alt"}', tabb='{"std"}',
              follow='{"add","swap"}', dev="{}", props=PROPS)
# "parameters": directions x codec preferences x tables on one or two transceivers per side
PARAMS = dict(maxa=1, maxb=1, maxadd=0, maxaddans=0, hows='{"track","trx","dc"}', dirs=ALLDIRS,
              apa='{"opus","g711"}', apv='{"vp8rtx","h264"}', bpa="{}", bpv='{"h264b_vp8rtx"}',
              pola='{"balanced"}', polb='{"max-compat"}', taba='{"std","alt"}', tabb='{"std","alt"}',
              follow='{"swap"}', dev="{}", props=PROPS)
# answerer-side preferences against an offerer without preferences
PARAMS_B = dict(PARAMS, apa="{}", apv="{}", bpa='{"opus","g711"}', bpv='{"vp8","h264rtx"}')
WITNESS = dict(maxa=2, maxb=1, maxadd=0, maxaddans=0, hows='{"track","trx","dc"}', dirs='{"sendrecv"}',
               apa="{}", apv="{}", bpa="{}", bpv='{"h264b_vp8rtx"}', pola='{"max-compat"}', polb='{"balanced"}',
               taba='{"alt"}', tabb='{"std"}', follow='{"swap"}', dev="{}", props="")
DEVIATION = dict(maxa=2, maxb=1, maxadd=0, maxaddans=0, hows='{"track","dc"}', dirs='{"sendrecv"}',
                 apa="{}", apv="{}", bpa="{}", bpv="{}", pola='{"max-bundle"}', polb='{"max-compat"}',
                 taba='{"std"}', tabb='{"std"}', follow="{}", props="INVARIANT RoundsOK")
SIM = dict(maxa=3, maxb=2, maxadd=2, maxaddans=1, hows='{"track","trx","trxtrack","dc"}', dirs=ALLDIRS,
           apa='{"opus","g711"}', apv='{"vp8rtx","h264","vp8"}', bpa="{}", bpv='{"h264b_vp8rtx"}',
           pola=ALLPOL, polb=ALLPOL, taba='{"std","alt"}', tabb='{"std","alt"}',
           follow='{"add","swap"}', props="")

WITNESSES = ("WitnessRich", "WitnessNoSecondRound", "WitnessNoUnassociated", "WitnessNoCodecFiltered", "WitnessNoChannel",
             "WitnessNoSwapAnswer", "WitnessNoTransportMoved")
DEVIATIONS = {"F03-maxbundle-primary-transport-stopped": "BundleStopsPrimary",
              "F03-unnegotiated-transport-counts": "UnnegotiatedCounts"}
ALL_DEVIATIONS = ("AnswerAllTransceivers", "BundleStopsPrimary", "UnnegotiatedCounts")
ACTIONS = ("AddItem", "DoneOff", "DoneAns", "DoOffer", "DoRemoteOffer", "DoAnswer", "DoRemoteAnswer", "Follow")

TRACE_CFG = (MODEL_CFG % dict(STRUCT, props="")).replace("SPECIFICATION Spec", "SPECIFICATION TraceSpec")
TRACE_CFG = TRACE_CFG.replace("VIEW View\n", "")

TIMEOUT_CLAUSES = ("C03.not_connected", "C03.channel_not_open", "C03.message_not_carried")


def cfg_from_model(c):
    """cfg history variable of Negotiation.tla -> harness configuration."""
    def items(seq):
        out = []
        for it in seq:
            if it["how"] == "dc":
                out.append({"how": "dc"})
                continue
            o = {"how": it["how"], "kind": it["kind"]}
            if it["how"] != "track":
                o["dir"] = it["dir"]
            if it["pref"] != "none":
                o["pref"] = it["pref"]
            out.append(o)
        return out
    return {"A": dict(c["A"]), "B": dict(c["B"]),
            "rounds": [{"offerer": r["offerer"], "addA": items(r["addA"]), "addB": items(r["addB"])}
                       for r in c["rounds"]]}


def _norm_desc(d):
    return {"media": [{"kind": m["kind"], "mid": m["mid"], "dir": m["dir"], "setup": m["setup"],
                       "codecs": [(c["name"], c["pt"], bool(c["rtx"]), c["rtxOf"], tuple(c["fb"])) for c in m["codecs"]],
                       "exts": [(x["uri"], x["id"]) for x in m["exts"]]} for m in d["media"]],
            "bundle": [list(g) for g in d["bundle"]]}


def agreement(expected, real):
    """Compare the model's round records with the real ones -> (fields compared, first differences)."""
    n = 0
    diffs = []
    for i, (e, r) in enumerate(zip(expected, real)):
        for f in ("offer", "answer"):
            n += 1
            if (e["exc"] == "") != (r["exc"] == ""):
                continue
            if _norm_desc(e[f]) != _norm_desc(r[f]):
                ne, nr = _norm_desc(e[f]), _norm_desc(r[f])
                what = f
                if len(ne["media"]) == len(nr["media"]):
                    for a, b in zip(ne["media"], nr["media"]):
                        for k in a:
                            if a[k] != b[k]:
                                what = "%s.%s" % (f, k)
                                break
                        else:
                            continue
                        break
                diffs.append("round%d.%s" % (i, what))
        n += 1
        if (e["exc"] == "") != (r["exc"] == ""):
            diffs.append("round%d.exc" % i)
            continue
        if e["exc"]:
            continue
        for f in ("sigOff", "sigAns", "connOff", "connAns"):
            n += 1
            if e[f] != r[f]:
                diffs.append("round%d.%s" % (i, f))
        n += 1
        if [dict(d) for d in e["dirs"]] != r["dirs"]:
            diffs.append("round%d.dirs" % i)
    n += 1
    if len(expected) != len(real):
        diffs.append("rounds")
    return n, diffs


def signature_of(trace, clause, pos):
    """What kind of failure this is (matched against known_findings.json)."""
    sig = {"clause": clause}
    if pos < 1 or pos > len(trace["rounds"]):
        return sig
    r = trace["rounds"][pos - 1]
    oo, oa = r.get("obsOff", {}), r.get("obsAns", {})
    if clause == "C03.exchange_failed":
        call, cls, msg = (r["exc"].split(":", 2) + ["", ""])[:3]
        sig.update(call=call, exc=cls, msg=msg, ans_unassoc=oa.get("unassoc", 0) > 0)
    stopped = any(o.get("policy") == "max-bundle" and "closed" in (o.get("primary"), o.get("primary_ice"))
                  for o in (oo, oa))
    idle = [o for o in (oo, oa) if o.get("conn") == "connecting" and o.get("idle_new") and o.get("primary") == "connected"]
    others_ok = all(o.get("conn") == "connected" or o in idle for o in (oo, oa))
    if stopped:
        sig["class"] = "maxbundle_primary_transport_stopped"
    elif clause == "C03.not_connected" and idle and others_ok:
        sig["class"] = "unnegotiated_transport_counts"
    else:
        sig["class"] = ""
    return sig


def judge(sc, traces, timeout):
    val, verdicts = T.validate_traces(sc, "TraceNegotiation", TRACE_CFG, _for_tlc(traces), timeout=timeout)
    if len(verdicts) != len(traces):
        raise T.MachineryError("trace validation incomplete: %d of %d verdicts\n%s"
                               % (len(verdicts), len(traces), val.out[-2500:]))
    for tid, (v, pos) in verdicts.items():
        if v.startswith("machinery"):
            raise T.MachineryError("trace %s: %s" % (tid, v))
    return val, verdicts


def _for_tlc(traces):
    """Only what the trace spec reads (keeps the NDJSON small, no heterogeneous extras)."""
    keep = ("offerer", "exc", "offer", "answer", "sigOff", "sigAns", "dirs", "connOff", "connAns", "chans")
    return [{"id": t["id"], "rounds": [{k: r[k] for k in keep} for r in t["rounds"]]} for t in traces]


def corrupt(trace, how):
    """Binding self-test: one field of a recorded (accepted) trace is changed."""
    t = copy.deepcopy(trace)
    r = t["rounds"][0]
    media = [m for m in r["answer"]["media"] if m["kind"] in KINDS]
    if how == "payload_type":
        c = media[0]["codecs"][0]
        c["pt"] = 127 if c["pt"] != 127 else 126
        return t, "C03.payload_type"
    if how == "setup":
        r["answer"]["media"][0]["setup"] = "actpass"
        return t, "C03.setup_indefinite"
    if how == "mid":
        r["answer"]["media"][-1]["mid"] = "x"
        return t, "C03.sections_mismatch"
    if how == "dirs":
        r["dirs"][0]["ans"] = r["dirs"][0]["off"] if r["dirs"][0]["off"] in ("sendonly", "recvonly") else "sendonly"
        return t, "C03.directions_not_complementary"
    if how == "ext":
        media[0]["exts"][0]["id"] = 14
        return t, "C03.extension_id"
    if how == "conn":
        r["connAns"] = "connecting"
        return t, "C03.not_connected"
    raise ValueError(how)


# ----------------------------------------------------------------------------- run


def run():
    rep = Report("C03")
    thorough = tier() == "thorough"
    r = rng(3)
    t_start = time.time()
    timing = {}
    nproc = max(4, min(12, (os.cpu_count() or 8) - 4))
    pool = make_pool(nproc)      # forked before anything else happens in this process
    try:
        present = [k["id"] for k in rep.known]
        dev_present = sorted(DEVIATIONS[i] for i in present if i in DEVIATIONS)

        # 3a. seeded random configurations start running on the real code right away
        nrand = 2600 if thorough else 130
        rand_jobs = [(i + 1, "regress", c) for i, c in enumerate(REGRESS)]
        rand_jobs += [(len(rand_jobs) + i + 1, "random", random_config(r)) for i in range(nrand - len(rand_jobs))]
        t0 = time.time()
        fut_rand = [pool.submit(_worker, j) for j in rand_jobs]

        with T.Scratch() as sc:
            # 1. design level
            runs = []
            exh_cfgs = [("structure", dict(STRUCT, maxa=3, maxb=1, taba='{"std","alt"}') if thorough
                         else dict(STRUCT, pola='{"max-compat","max-bundle"}', polb='{"balanced","max-bundle"}')),
                        ("parameters", dict(PARAMS, maxa=2) if thorough else PARAMS)]
            if thorough:
                exh_cfgs.append(("parameters-answerer", dict(PARAMS_B, maxb=2)))
                exh_cfgs.append(("structure-answerer", dict(STRUCT, maxa=2, maxb=2, maxaddans=1,
                                                            pola='{"balanced","max-bundle"}')))
            for name, c in exh_cfgs:
                t1 = time.time()
                exh = T.tlc(sc, "Negotiation", MODEL_CFG % c, workers=8, timeout=2400 if thorough else 240)
                if not exh.complete or exh.violated:
                    raise T.MachineryError("design model Negotiation (%s) failed: %s\n%s"
                                           % (name, exh.violated, exh.out[-2500:]))
                runs.append({"config": name, "states": exh.distinct, "transitions": exh.generated,
                             "depth": exh.depth, "wall_s": round(time.time() - t1, 1),
                             "constants": {k: v for k, v in c.items() if k != "props"}})
            timing["tlc_exhaustive_s"] = round(sum(x["wall_s"] for x in runs), 1)
            # witnesses (non-vacuity), deviation constants and the simulation are small TLC
            # runs: they run side by side
            import concurrent.futures as cf
            t1 = time.time()
            wits = list(WITNESSES) if thorough else ["WitnessRich", "WitnessNoUnassociated"][seed() % 2:][:1]
            devs = list(ALL_DEVIATIONS) if thorough else [ALL_DEVIATIONS[seed() % 3]]
            nsim = 1500 if thorough else 110
            simcfg = MODEL_CFG % dict(SIM, dev="{" + ",".join('"%s"' % d for d in dev_present) + "}")

            # (harness.tlc writes <module>_run.cfg into the scratch directory: one directory per
            # concurrent run)
            def run_witness(w):
                with T.Scratch() as s2:
                    return T.tlc(s2, "Negotiation", MODEL_CFG % dict(WITNESS, props="INVARIANT " + w), workers=2, timeout=300)

            def run_deviation(d):
                with T.Scratch() as s2:
                    return T.tlc(s2, "Negotiation", MODEL_CFG % dict(DEVIATION, dev='{"%s"}' % d,
                                 maxb=1 if d != "BundleStopsPrimary" else 0), workers=2, timeout=300)

            def run_simulate():
                with T.Scratch() as s2:
                    return T.simulate(s2, "Negotiation", simcfg, nsim, 40, seed(), 900, 6)

            with cf.ThreadPoolExecutor(max_workers=3) as tp:
                f_sim = tp.submit(run_simulate)
                f_w = [(w, tp.submit(run_witness, w)) for w in wits]
                f_d = [(d, tp.submit(run_deviation, d)) for d in devs]
                seen_w, seen_d = [], []
                for w, f in f_w:
                    wr = f.result()
                    if w not in wr.violated:
                        raise T.MachineryError("vacuity: witness %s not violated\n%s" % (w, wr.out[-1500:]))
                    seen_w.append(w)
                for d, f in f_d:
                    dr = f.result()
                    if "RoundsOK" not in dr.violated:
                        raise T.MachineryError("deviation %s does not violate RoundsOK\n%s" % (d, dr.out[-1500:]))
                    seen_d.append(d)
                sim, behs = f_sim.result()

            # 2. spec -> code: configurations chosen by TLC, executed on real peer connections
            if not behs:
                raise T.MachineryError("no simulated behaviours\n" + sim.out[-2000:])
            action_counts = {}
            sim_jobs, expected = [], {}
            seen_cfg = set()
            for beh in behs:
                for action, state in beh[1:]:
                    action_counts[action] = action_counts.get(action, 0) + 1
                last = beh[-1][1]
                # (harness.tlc drops states whose action label contains a record argument, i.e.
                # every AddItem step; they are counted from the history variable instead)
                action_counts["AddItem"] = action_counts.get("AddItem", 0) + sum(
                    len(rd["addA"]) + len(rd["addB"]) for rd in last["cfg"]["rounds"])
                if last["phase"] not in ("done", "end") or not last["res"]:
                    continue
                cfg = cfg_from_model(last["cfg"])
                key = json.dumps(cfg, sort_keys=True)
                if key in seen_cfg:
                    continue
                seen_cfg.add(key)
                tid = nrand + len(sim_jobs) + 1
                sim_jobs.append((tid, "tlc-simulate", cfg))
                expected[tid] = last["res"]
            missing = [a for a in ACTIONS if not action_counts.get(a)]
            if missing:
                raise T.MachineryError("actions never taken in %d behaviours: %s" % (len(behs), missing))
            timing["tlc_witness_deviation_simulate_s"] = round(time.time() - t1, 1)
            fut_sim = [pool.submit(_worker, j) for j in sim_jobs]
            traces = [f.result(timeout=2400) for f in fut_rand + fut_sim]
            timing["executions_s"] = round(time.time() - t0, 1)
            errs = [t for t in traces if t["err"]]
            if errs:
                raise T.MachineryError("executor failed on %d configurations, first: %s %s"
                                       % (len(errs), errs[0]["err"], json.dumps(errs[0]["cfg"])))

            # 3b. code -> spec: TLC judges every recorded execution
            t1 = time.time()
            val, verdicts = judge(sc, traces, 1200)
            # timeout clauses: re-run up to two more times (real sockets, shared machine)
            reruns = 0
            flaky = 0
            by_id = {t["id"]: t for t in traces}
            for attempt in range(2):
                again = [t for t in traces if verdicts[t["id"]][0] in TIMEOUT_CLAUSES
                         and signature_of(t, *verdicts[t["id"]]).get("class", "") == ""]
                if not again:
                    break
                redo = list(pool.map(_worker, [(t["id"], t["src"], t["cfg"]) for t in again], chunksize=1))
                reruns += len(redo)
                _, v2 = judge(sc, redo, 600)
                for t in redo:
                    if t["err"]:
                        raise T.MachineryError("executor failed on re-run: " + t["err"])
                    if v2[t["id"]][0] == "ok":
                        flaky += 1
                    t["rerun_of"] = verdicts[t["id"]][0]
                    by_id[t["id"]] = t
                    verdicts[t["id"]] = v2[t["id"]]
                traces = [by_id[t["id"]] for t in traces]

            # 4. binding self-test: corrupted copies of accepted traces must be rejected as expected
            bind = {}
            ok_media = [t for t in traces if verdicts[t["id"]][0] == "ok" and t["rounds"][0]["dirs"]
                        and t["rounds"][0]["answer"]["media"][0]["kind"] in KINDS]
            bind_src = "recorded"
            if not ok_media:
                # nothing was accepted on this tree: corrupt a round record of the model instead
                bind_src = "model"
                ok_media = [{"id": 0, "rounds": [dict(rd, offer_seen=rd["offer"], answer_seen=rd["answer"]) for rd in res]}
                            for res in expected.values()
                            if all(rd["exc"] == "" and rd["connOff"] == "connected" and rd["connAns"] == "connected"
                                   for rd in res) and res[0]["dirs"] and res[0]["answer"]["media"][0]["kind"] in KINDS]
            if not ok_media:
                raise T.MachineryError("binding self-test: no accepted trace with a media section")
            hows = ("payload_type", "setup", "mid", "dirs", "ext", "conn")
            bad = []
            for i, how in enumerate(hows if thorough else (hows[seed() % 3], hows[3 + seed() % 3])):
                bt, want = corrupt(ok_media[i % len(ok_media)], how)
                bt["id"] = i + 1
                bad.append((bt, want, how))
            _, bv = T.validate_traces(sc, "TraceNegotiation", TRACE_CFG, _for_tlc([b[0] for b in bad]), timeout=300)
            for bt, want, how in bad:
                got = bv.get(bt["id"], ("?", 0))[0]
                bind[how] = got
                if got != want:
                    raise T.MachineryError("binding self-test: corrupted trace (%s) judged %r, expected %r" % (how, got, want))
            timing["tlc_trace_validation_s"] = round(time.time() - t1, 1)

        # verdicts
        clause_counts = {}
        for t in traces:
            v, pos = verdicts[t["id"]]
            clause_counts[v] = clause_counts.get(v, 0) + 1
            if v != "ok":
                rd = t["rounds"][pos - 1]
                sig = signature_of(t, v, pos)
                rep.violation(v, sig, {"round": pos, "exc": rd["exc"], "conn": [rd["connOff"], rd["connAns"]],
                                       "class": sig.get("class"), "source": t["src"], "cfg": t["cfg"]},
                              {"cfg": t["cfg"], "rounds": t["rounds"]})
        # agreement of the model with the code (measure only)
        fields = 0
        disagreements = {}
        agree_cfgs = 0
        for t in traces:
            if t["id"] in expected:
                n, diffs = agreement(expected[t["id"]], t["rounds"])
                fields += n
                agree_cfgs += 1 if not diffs else 0
                for d in diffs[:1]:
                    k = d.split(".", 1)[1] if "." in d else d
                    disagreements[k] = disagreements.get(k, 0) + 1
        roundtrip_ok = sum(1 for t in traces for rd in t["rounds"]
                           if not rd["exc"] and rd["offer"] == rd["offer_seen"] and rd["answer"] == rd["answer_seen"])
        rounds_total = sum(1 for t in traces for rd in t["rounds"] if not rd["exc"])
        sample = [{"cfg": t["cfg"], "verdict": verdicts[t["id"]][0],
                   "rounds": [{"offer": [(m["kind"], m["mid"], m["dir"]) for m in rd["offer"]["media"]],
                               "answer": [(m["kind"], m["mid"], m["dir"], m["setup"]) for m in rd["answer"]["media"]],
                               "exc": rd["exc"], "conn": [rd["connOff"], rd["connAns"]]} for rd in t["rounds"]]}
                  for t in (traces[0], traces[-1])]
        rep.coverage = {
            "states": sum(x["states"] for x in runs), "transitions": sum(x["transitions"] for x in runs),
            "exhaustive": True, "exhaustive_runs": runs,
            "witnesses_violated": seen_w, "deviations_caught": seen_d,
            "deviations_in_lockstep_model": dev_present,
            "action_coverage": action_counts,
            "action_coverage_note": "counted on the -simulate behaviours; TLC's -coverage cost model does not terminate on this module",
            "traces_validated_against_impl": len(traces),
            "rounds_validated": sum(len(t["rounds"]) for t in traces),
            "configurations_random": nrand, "configurations_from_tlc": len(sim_jobs),
            "configurations_connected_every_round": sum(1 for t in traces if verdicts[t["id"]][0] == "ok"),
            "verdict_counts": clause_counts,
            "timeout_clause_reruns": reruns, "timeout_clause_flaky": flaky,
            "lockstep_configurations": len(expected), "lockstep_configurations_in_full_agreement": agree_cfgs,
            "lockstep_fields_compared": fields, "lockstep_first_disagreements": disagreements,
            "sdp_text_roundtrip_rounds_equal": roundtrip_ok, "sdp_text_roundtrip_rounds": rounds_total,
            "binding_selftest": bind, "binding_selftest_source": bind_src,
            "trace_validation_states": val.distinct,
            "mean_execution_s": round(sum(t["wall"] for t in traces) / max(1, len(traces)), 3),
            "close_did_not_return": sum(1 for t in traces if t.get("note")),
            "pool_processes": nproc, "timing": timing,
            "samples": sample,
        }
        rep.assumptions = [
            "aiortc.sdp.SessionDescription.parse is the projection of SDP text onto the abstract fields (C09 is not claimed)",
            "a peer with another payload-type / extension-id table is the same library with aiortc.rtcpeerconnection.CODECS / HEADER_EXTENSIONS swapped around that peer's calls",
            "codec names are compared as subtype/clock[/channels]; H264 profiles are not distinguished by the oracle (only by the agreement measure)",
            "BUNDLE mirrors = same number of groups, same tagged (first) mid, same members",
            "codec preferences of transceivers that get matched always intersect; at least one m-section in the first offer",
            "loopback UDP works in the sandbox; a timeout clause counts only if it fails three times in a row",
            "media flow is not asserted (tracks never yield frames)",
        ]
        return rep.finish()
    except T.MachineryError as e:
        return rep.finish(machinery_error=e)
    finally:
        pool.shutdown(wait=False, cancel_futures=True)


def replay(path):
    """Re-execute the configuration of a saved failing trace on the current tree and re-judge it."""
    obj = json.load(open(path))
    cfg = obj["replay"]["cfg"]
    verdict, pos, t = "?", 0, None
    for attempt in range(3):
        t = _worker((1, "replay", cfg))
        if t["err"]:
            print("MACHINERY-ERROR property=C03 " + t["err"])
            return 2
        with T.Scratch() as sc:
            _, v = judge(sc, [t], 300)
        verdict, pos = v[1]
        if verdict not in TIMEOUT_CLAUSES:
            break
    if verdict == "ok":
        print("replay: trace accepted on the current tree")
        return 0
    rd = t["rounds"][pos - 1]
    print("VIOLATION property=C03 replay=%s clause=%s round=%d exc=%r conn=%s/%s signature=%s" % (
        path, verdict, pos, rd["exc"], rd["connOff"], rd["connAns"], json.dumps(signature_of(t, verdict, pos))))
    return 1
