"""Extra specification beyond the listed properties: RtpSenderObs.tla / TraceRtpSender.tla.

A real RTCRtpSender on a fake transport under the virtual-time loop is fed pre-encoded
frames; every RTP / RTCP datagram it emits is parsed and recorded (origin-relative), and
TLC judges the executions with the clauses S1-S4 of RtpSenderObs.tla (consecutive
sequence numbers, one timestamp and exactly one marker per frame, sender-report counts,
exactly one BYE at stop).  Run as an extra stage of the C11 check: a rejected trace is
reported in the evidence (`extra_specs`) - these clauses belong to none of C01-C19, so they
never produce a VIOLATION line.
"""
import asyncio
import fractions
import random

from . import common  # noqa: F401
from . import tlc as T
from .vloop import ShimTime, VLoop

CFG = "SPECIFICATION TraceSpec\nCONSTANTS\n MaxPkts = 0\n FrameSizes = {}\nCHECK_DEADLOCK FALSE\n"
REF_CFG = ("SPECIFICATION Spec\nCONSTANTS\n MaxPkts = 5\n FrameSizes = {10, 1000}\nINVARIANT RefOk\n%s"
           "CHECK_DEADLOCK FALSE\n")
WITNESSES = ["W_NoMultiPacketFrame", "W_NoReportAfterTraffic", "W_NeverBye"]


class _FakeTransport:
    def __init__(self, rec):
        self.state = "connected"
        self._stats_id = "t"
        self.rec = rec

    def _register_rtp_sender(self, sender, parameters):
        pass

    def _unregister_rtp_sender(self, sender):
        pass

    async def _send_rtp(self, data):
        self.rec(bytes(data))


def run_sender(seed_, seq0, ts0, nframes):
    """One execution; returns the event list."""
    import av
    import aiortc.clock as C
    import aiortc.rtcrtpsender as TX
    from aiortc import rtp
    from aiortc.mediastreams import MediaStreamError, MediaStreamTrack
    from aiortc.rtcrtpparameters import RTCRtcpParameters, RTCRtpCodecParameters, RTCRtpSendParameters

    r = random.Random(seed_)
    loop = VLoop()
    asyncio.set_event_loop(loop)
    saved = (TX.time, TX.random, TX.random_sequence_number, TX.random32, C.current_ntp_time)
    TX.time = ShimTime(loop)
    rr = random.Random(seed_ + 1)
    TX.random = rr
    TX.random_sequence_number = lambda: seq0
    TX.random32 = lambda: ts0
    events = []
    state = {"ssrc": None}

    def now_ms():
        return int(round((loop.time() - 1000.0) * 1000))

    def rec(data):
        try:
            if rtp.is_rtcp(data):
                for p in rtp.RtcpPacket.parse(data):
                    if isinstance(p, rtp.RtcpSrPacket):
                        si = p.sender_info
                        events.append({"k": "sr", "pc": si.packet_count, "oc": si.octet_count,
                                       "ts": (si.rtp_timestamp - ts0) % 2 ** 32 if si.packet_count else -1,
                                       "t": now_ms(), "ssrcok": bool(p.ssrc == state["ssrc"])})
                    elif isinstance(p, rtp.RtcpByePacket):
                        events.append({"k": "bye", "ssrcok": bool(p.sources == [state["ssrc"]])})
            else:
                p = rtp.RtpPacket.parse(data)
                events.append({"k": "rtp", "seq": (p.sequence_number - seq0) % 65536, "ts": (p.timestamp - ts0) % 2 ** 32,
                               "m": bool(p.marker), "n": len(p.payload), "ssrcok": bool(p.ssrc == state["ssrc"]),
                               "ptok": bool(p.payload_type == 100)})
        except Exception as exc:  # the recorder must not disturb the sender
            events.append({"k": "exc", "where": "recorder", "name": type(exc).__name__})

    class Track(MediaStreamTrack):
        kind = "video"

        def __init__(self):
            super().__init__()
            self.q = asyncio.Queue()

        async def recv(self):
            item = await self.q.get()
            if item is None:
                raise MediaStreamError
            return item

    async def main():
        track = Track()
        sender = TX.RTCRtpSender(track, _FakeTransport(rec))
        state["ssrc"] = sender._ssrc
        codec = RTCRtpCodecParameters(mimeType="video/VP8", clockRate=90000, payloadType=100)
        await sender.send(RTCRtpSendParameters(codecs=[codec], rtcp=RTCRtcpParameters(cname="x", ssrc=sender._ssrc)))
        pts = 0
        for i in range(nframes):
            size = r.choice([10, 500, 1290, 1300, 1301, 2600, 3000, 9000])
            pkt = av.Packet(bytes([1 + (i % 200)]) * size)
            pkt.pts = pts
            pkt.time_base = fractions.Fraction(1, 90000)
            pts += 3000
            await track.q.put(pkt)
            await asyncio.sleep(r.choice([0.0, 0.01, 0.033, 0.033, 0.2, 0.7]))
        await asyncio.sleep(r.choice([0.0, 0.4, 2.0]))
        events.append({"k": "stop"})
        await sender.stop()
        await asyncio.sleep(2.0)

    try:
        # run under virtual time: fire timers in order until the coroutine has finished
        task = loop.create_task(main())
        guard = 0
        while not task.done() and guard < 200000:
            guard += 1
            loop.drain()
            if task.done():
                break
            ts_ = loop.timers()
            if not ts_:
                break
            h = ts_[0]
            loop._vtime = max(loop._vtime, h._when)
            loop.fire(h)
        loop.drain()
        if task.done() and task.exception() is not None:
            events.append({"k": "exc", "where": "driver", "name": type(task.exception()).__name__})
        elif not task.done():
            events.append({"k": "exc", "where": "driver", "name": "NotFinished"})
            task.cancel()
            loop.drain()
    finally:
        TX.time, TX.random, TX.random_sequence_number, TX.random32, C.current_ntp_time = saved
        try:
            loop.close()
        finally:
            asyncio.set_event_loop(None)
    return events


ORIGINS = [(1000, 100000), (65530, 2 ** 32 - 9000), (65535, 2 ** 32 - 1), (32760, 2 ** 31 - 3000), (0, 0)]


def stage(thorough, seed_):
    """Returns a dict for the evidence (never raises a property violation)."""
    out = {}
    with T.Scratch(prefix="verif_xsnd_") as sc:
        ref = T.tlc(sc, "RtpSenderObs", REF_CFG % "", workers=4, timeout=600)
        out["reference_states"] = ref.distinct
        out["reference_ok"] = bool(ref.complete and not ref.violated)
        wit = {}
        for w in WITNESSES:
            x = T.tlc(sc, "RtpSenderObs", REF_CFG % ("INVARIANT %s\n" % w), workers=2, timeout=300)
            wit[w] = w in x.violated
        out["witnesses_violated_as_required"] = wit
        traces = []
        n = 60 if thorough else 12
        for i in range(n):
            seq0, ts0 = ORIGINS[i % len(ORIGINS)]
            evs = run_sender(seed_ * 1000 + i, seq0, ts0, nframes=8 + (i % 7) * 6)
            traces.append({"id": i + 1, "events": evs, "origin": [seq0, ts0]})
        val, verdicts = T.validate_traces(sc, "TraceRtpSender", CFG, [{"id": t["id"], "events": t["events"]} for t in traces],
                                          timeout=900)
        # binding: a skipped sequence number must be rejected
        bad = {"id": 1, "events": [dict(e) for e in traces[0]["events"]]}
        k = [i for i, e in enumerate(bad["events"]) if e["k"] == "rtp"]
        if k:
            del bad["events"][k[len(k) // 2]]
        _, bv = T.validate_traces(sc, "TraceRtpSender", CFG, [bad], timeout=300)
        out["binding_selftest"] = bv.get(1, ("?", 0))[0]
    rejected = {}
    for t in traces:
        v = verdicts.get(t["id"], ("machinery.missing", 0))
        if v[0] != "ok":
            rejected.setdefault(v[0], []).append({"origin": t["origin"], "position": v[1],
                                                   "event": t["events"][v[1] - 1] if 0 < v[1] <= len(t["events"]) else None})
    out["traces"] = len(traces)
    out["events"] = sum(len(t["events"]) for t in traces)
    out["rtp_packets"] = sum(1 for t in traces for e in t["events"] if e["k"] == "rtp")
    out["sender_reports"] = sum(1 for t in traces for e in t["events"] if e["k"] == "sr")
    out["rejected"] = {k: v[:2] for k, v in rejected.items()}
    out["sample"] = traces[0]["events"][:6]
    return out
