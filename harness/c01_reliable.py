"""C01 - reliable data channels deliver every message exactly once, intact, in order.  See harness/sctp_check.py (shared SCTP / data-channel check)."""
MANIFEST = dict(
    technique='TLA+ model SctpAssoc.tla (SCTP sender/receiver data path) model-checked with TLC against the delivery clauses of DataChannelObs.tla; TLC behaviours replayed in lock step into real RTCSctpTransport pairs; executions of the real code (random fault schedules, all message sizes, both roles) validated by TraceDataChannel.tla with TLC',
    text='Exhaustive TLC check that the modelled design (fragmentation, TSN bookkeeping, duplicate filtering, reassembly) never delivers out of order, twice, on the wrong channel or a spliced message under any drop/duplicate/reorder/T3 schedule within small constants, with 100%% lock-step agreement between the model and the code on replayed behaviours; every message event of every recorded execution of the real code is judged by the TLA+ clauses prefix / nodup / intact / channel.',
    note='Trusted: TLC; the in-memory network and virtual-time loop of harness/sctp_env.py standing in for DTLS/UDP; the event recorder. The design-level result is exhaustive only within the stated constants and the in-flight bound; conformance of the code is sampled (lock-step replays of TLC behaviours, seeded random programs and fault schedules, saved regression schedules).',
    design_ref='5/C01')

from . import sctp_check  # noqa: E402


def run():
    return sctp_check.run('C01')


def replay(path):
    return sctp_check.replay('C01', path)
