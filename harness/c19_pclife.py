"""C19 - close() always completes, is idempotent and leaves nothing running.

Specs: specs/PcLife.tla (lifecycle model of one peer connection and the tasks/threads it
owns + the A-level post-conditions `Clause`), specs/TracePcLife.tla (verdict function).

quick / thorough:
  1. TLC checks PcLife.tla exhaustively: all interleavings of the close() coroutine (first
     call, second call, the automatic close) with the two __connect coroutines, the
     negotiation calls, the tasks' own steps and the remote events, for the four
     transport/media/channel configurations and both negotiation roles.  Safety: the
     post-conditions at/after `CloseReturned`, second close is a no-op; terminal states;
     liveness `CloseCalled ~> CloseReturned` and `CloseReturned ~> nothing running` under
     weak fairness; witness invariants; -coverage; every `Deviations` element (a defect
     re-enabled in the model) must produce a counter-example.
  2. spec -> code: `tlc -simulate` behaviours are turned into interruption points
     (configuration, the label the __connect / negotiation coroutines are suspended at when
     close() is called, side, single / both / other side gone first / second close) and
     executed on a REAL pair of RTCPeerConnections (loopback host candidates, real DTLS /
     SCTP / RTP); the final observable state is compared with the model's (agreement).
  3. code -> spec: plus label x side x mode products, every event-loop iteration index k of
     a reference run, and seeded random delays.  Every execution is recorded (close calls
     and returns, events, states, channels, tracks, task and thread census) and judged by
     TracePcLife.tla with TLC.  Only a clause evaluated by TLC produces VIOLATION; a failing
     interruption point is re-run up to 3 times and must reproduce.
  4. binding self-test: corrupted copies of a recorded trace must be rejected with the
     expected clause.
"""
MANIFEST = dict(
    technique="TLA+ model PcLife.tla (close()/__connect/negotiation coroutines, ICE/aioice/DTLS/SCTP/RTP components with the tasks and threads they own) model-checked with TLC incl. liveness under weak fairness; TLC-simulated interruption points plus label/iteration-index/random-delay injection of close() into real RTCPeerConnection pairs on loopback; recorded executions judged by TracePcLife.tla (TLC trace validation)",
    text="Exhaustive TLC check that in the lifecycle design every close() call returns, leaves signalling/ICE/connection state closed, channels closed, tracks ended, no task or thread running and no later event, and that a second close changes nothing, over all interleavings with connection establishment, negotiation calls and remote events; conformance of the real code: close() is injected at every await boundary of __connect (wrappers around gather, ICE/DTLS/SCTP start, send, receive), at every event-loop iteration of a reference run and at random delays, on either/both sides, after the peer has gone, twice, and concurrently with negotiation calls; TLC judges the recorded states, channel/track states, asyncio task and thread census and late events.",
    note="Trusted: TLC, the harness' event interception (instance-level emit wrappers), task attribution by coroutine code file (aiortc / aioice) and owner object, thread census by enumeration minus pre-existing and default-executor threads. Real sockets: timing is not deterministic, so a failing point must reproduce in a re-run (up to 3) before it is reported; hangs are bounded by a generous timeout. A received track counts as ended when its consumer (a harness task calling recv()) has seen the end; the track's own 'ended' event is not counted as a late event. Calls issued after close() returned are C14's subject and are not made. Conformance is sampled in quick (all labels, sampled iteration indices), near-exhaustive over iteration indices in thorough.",
    design_ref="5/C19")

import asyncio  # noqa: E402
import copy  # noqa: E402
import json  # noqa: E402
import logging  # noqa: E402
import multiprocessing  # noqa: E402
import os  # noqa: E402
import sys  # noqa: E402
import threading  # noqa: E402
import time  # noqa: E402

from . import common  # noqa: F401,E402  (sets sys.path for aiortc)
from .common import Report, rng, seed, tier  # noqa: E402
from . import tlc as T  # noqa: E402

SIDES = ("A", "B")
CLOSE_BOUND = 20.0        # seconds a close() may take before it is called a hang
CONNECT_BOUND = 15.0      # seconds the script waits for connected / open / flowing
GRACE_MAX = 1.2           # seconds (and GRACE_ITERS loop iterations) granted after the last close
GRACE_ITERS = 60
SCENARIO_DEADLINE = 90.0  # parent-side: a worker busy longer than this is killed (frozen loop)
LABELS = ("gather", "ice_start", "ice_check_done", "dtls_start", "sctp_start", "send", "receive")
SCRIPT_CALLS = ("A.createOffer", "A.setLocalDescription", "B.setRemoteDescription",
                "B.createAnswer", "B.setLocalDescription", "A.setRemoteDescription")


def other(s):
    return "B" if s == "A" else "A"


def _dbg(*a):
    if os.environ.get("C19_DEBUG"):
        print("[c19 %.2f]" % time.time(), *a, file=sys.stderr, flush=True)


# =============================================================================
# real executions
# =============================================================================

_CTX = None          # the Run in progress in this (worker) process
_WRAPPED = False
_STEP_SINK = None    # worker: callable receiving every logged step at once (survives a frozen loop)


def _install_wrappers():
    """Class-level wrappers that realise the model's labels (harness side only)."""
    global _WRAPPED
    if _WRAPPED:
        return
    _WRAPPED = True
    from aiortc.rtcicetransport import RTCIceGatherer, RTCIceTransport
    from aiortc.rtcdtlstransport import RTCDtlsTransport
    from aiortc.rtcsctptransport import RTCSctpTransport
    from aiortc.rtcrtpsender import RTCRtpSender
    from aiortc.rtcrtpreceiver import RTCRtpReceiver

    def wrap(cls, meth, label):
        orig = getattr(cls, meth)

        async def wrapper(self, *a, **k):
            ctx = _CTX
            if ctx is not None:
                ctx.at_label(self, label, "enter")
            try:
                return await orig(self, *a, **k)
            finally:
                if ctx is not None and ctx is _CTX:
                    ctx.at_label(self, label, "exit")
        wrapper.__name__ = orig.__name__
        wrapper.__qualname__ = orig.__qualname__
        wrapper.__doc__ = orig.__doc__
        setattr(cls, meth, wrapper)

    try:
        from aioice.ice import Connection
        orig_cc = Connection.check_complete

        def check_complete(self, pair):
            before = self._check_list_done
            try:
                return orig_cc(self, pair)
            finally:
                ctx = _CTX
                if ctx is not None and not before and self._check_list_done:
                    ctx.at_label(self, "ice_check_done", "exit")
        Connection.check_complete = check_complete
    except Exception:  # another aioice: the label simply never fires
        pass
    wrap(RTCIceGatherer, "gather", "gather")
    wrap(RTCIceTransport, "start", "ice_start")
    wrap(RTCDtlsTransport, "start", "dtls_start")
    wrap(RTCSctpTransport, "start", "sctp_start")
    wrap(RTCRtpSender, "send", "send")
    wrap(RTCRtpReceiver, "receive", "receive")


class ScriptStop(Exception):
    pass


def _small_video_track():
    import fractions
    from av import VideoFrame
    from aiortc.mediastreams import VideoStreamTrack

    class SmallVideoTrack(VideoStreamTrack):
        """160x120 frames: a real VP8 encode/decode that stays cheap."""

        async def recv(self):
            pts, time_base = await self.next_timestamp()
            frame = VideoFrame(width=160, height=120)
            for p in frame.planes:
                p.update(bytes(p.buffer_size))
            frame.pts = pts
            frame.time_base = time_base
            return frame
    return SmallVideoTrack()


class Run:
    """One execution: a real pair of peer connections, one injection of close()."""

    def __init__(self, sc):
        self.sc = sc
        self.steps = []
        self.pcs = {}
        self.owner = {}            # id(obj) -> side (kept alive through self.keep)
        self.keep = []
        self.channels = {"A": [], "B": []}
        self.tracks = {"A": [], "B": []}
        self.counts = {}
        self.fired = False
        self.fired_at = None
        self.close_started = {"A": False, "B": False}
        self.close_tasks = []
        self.my_tasks = set()
        self.iter = 0
        self.info = {}
        self.msgs = {"A": 0, "B": 0}
        self.frames = {"A": 0, "B": 0}
        self.current = {}          # side -> negotiation call in flight
        # application actions (createDataChannel / addTransceiver) at arbitrary points
        self.app = [dict(a, done=False) for a in sc.get("app", [])]
        self.marks = {"chan_closed": {"A": None, "B": None}, "sctp_closed": {"A": None, "B": None},
                      "peer_closed": {"A": None, "B": None}}   # loop iteration at which the condition was first seen
        self.napp = 0
        self.pre_threads = set(threading.enumerate())

    # ------------------------------------------------------------------ plumbing
    def log(self, **kw):
        self.steps.append(kw)
        if _STEP_SINK is not None:
            _STEP_SINK(kw)

    def spawn(self, coro):
        t = asyncio.ensure_future(coro)
        self.my_tasks.add(t)
        return t

    def scan(self):
        """Remember which side owns which aiortc / aioice object."""
        for side, pc in self.pcs.items():
            objs = [pc]
            try:
                for tr in pc.getTransceivers():
                    objs += [tr, tr.sender, tr.receiver, tr.receiver.transport, tr.sender.transport]
                if pc.sctp is not None:
                    objs += [pc.sctp, pc.sctp.transport]
                for name in ("_RTCPeerConnection__dtlsTransports", "_RTCPeerConnection__iceTransports"):
                    objs += list(getattr(pc, name, ()) or ())
            except Exception:   # a mutated tree may not have these
                pass
            more = []
            for o in objs:
                ice = getattr(o, "transport", None) if o.__class__.__name__ == "RTCDtlsTransport" else None
                if ice is not None:
                    more.append(ice)
            for o in objs + more:
                if o.__class__.__name__ == "RTCIceTransport":
                    g = getattr(o, "iceGatherer", None)
                    more += [x for x in (g, getattr(o, "_connection", None)) if x is not None]
            for o in objs + more:
                if o is not None and id(o) not in self.owner:
                    self.owner[id(o)] = side
                    self.keep.append(o)

    def side_of(self, obj):
        if id(obj) not in self.owner:
            self.scan()
        return self.owner.get(id(obj))

    # ------------------------------------------------------------------ events
    def hook_emitter(self, side, src, obj):
        orig = obj.emit
        run = self

        def emit(event, *a, **k):
            run.on_event(side, src, event, a)
            return orig(event, *a, **k)
        obj.emit = emit

    def on_event(self, side, src, event, args):
        if src == "pc" and event == "datachannel" and args:
            self.add_channel(side, args[0])
        if src == "pc" and event == "track" and args:
            self.add_track(side, args[0])
        if src == "channel" and event == "message":
            self.msgs[side] += 1
            if not self.close_started[side]:
                return
        if src == "channel" and event == "close" and self.marks["chan_closed"][side] is None:
            self.marks["chan_closed"][side] = self.iter
            self.app_poll()
        if self.close_started[side]:
            self.log(op="event", side=side, src=src, name=str(event))

    def add_channel(self, side, ch):
        if all(ch is not c for c in self.channels[side]):
            self.channels[side].append(ch)
            self.hook_emitter(side, "channel", ch)

    def add_track(self, side, track):
        if all(track is not t for t in self.tracks[side]):
            self.tracks[side].append(track)
            self.hook_emitter(side, "track", track)
            self.spawn(self.consume(side, track))

    async def consume(self, side, track):
        """The application's consumer of a received track (like MediaBlackhole)."""
        from aiortc.mediastreams import MediaStreamError
        while True:
            try:
                await track.recv()
                self.frames[side] += 1
            except MediaStreamError:
                return

    # ------------------------------------------------------------------ triggers
    def at_label(self, obj, label, phase):
        side = self.side_of(obj)
        if side is None:
            return
        key = (side, label, phase)
        self.counts[key] = self.counts.get(key, 0) + 1
        self.log(op="label", side=side, label=label, phase=phase)      # informational (signatures)
        for a in self.app:
            t = a["trig"]
            if (not a["done"] and t["kind"] == "label" and t["side"] == side and t["label"] == label
                    and t["phase"] == phase and t.get("n", 1) == self.counts[key]):
                self.do_app(a)
        tr = self.sc["trig"]
        if (not self.fired and tr["kind"] == "label" and tr["side"] == side and tr["label"] == label
                and tr["phase"] == phase and tr.get("n", 1) == self.counts[key]):
            self.fire("%s.%s.%s#%d" % (key + (self.counts[key],)))

    def app_poll(self):
        """Application actions whose condition (n loop iterations after a mark / iteration k) is met."""
        for a in self.app:
            if a["done"]:
                continue
            t = a["trig"]
            if t["kind"] == "iter":
                if self.iter >= t["k"]:
                    self.do_app(a)
            elif t["kind"] in self.marks:
                base = self.marks[t["kind"]][a["side"]]
                if base is not None and self.iter >= base + t.get("plus", 0):
                    self.do_app(a)

    def do_app(self, a):
        """createDataChannel / addTransceiver called by the application on side a['side']."""
        a["done"] = True
        side = a["side"]
        pc = self.pcs[side]
        if self.close_started[side]:
            # the application has called close() itself: calls issued after that are C14's subject.
            # (A connection that closed ITSELF - remote side gone - is fair game: the application
            # may not have noticed yet.)
            self.log(op="app", side=side, what=a["what"], res="skipped", at=a["trig"].get("kind"), chan=-1,
                     pcsig=str(pc.signalingState), sctp="", conn=str(pc.connectionState), closing=1)
            return
        self.napp += 1
        res = "ok"
        idx = -1
        pcsig = str(pc.signalingState)
        try:
            if a["what"] == "dc":
                self.add_channel(side, pc.createDataChannel("late%d" % self.napp))
                idx = len(self.channels[side]) - 1
            elif a["what"] == "close_dc":      # the application closes an open data channel
                chs = [c for c in self.channels[side] if c.readyState == "open"]
                if chs:
                    idx = self.channels[side].index(chs[0])
                    chs[0].close()
                else:
                    res = "skipped"
            else:
                pc.addTransceiver(a["what"], direction=a.get("dir", "sendrecv"))
        except Exception as e:  # noqa  (e.g. InvalidStateError once the connection is closed)
            res = "raised: %s" % type(e).__name__
        sctp = getattr(pc, "sctp", None)
        self.log(op="app", side=side, what=a["what"], res=res, at=a["trig"].get("kind"), chan=idx, pcsig=pcsig,
                 sctp=str(getattr(sctp, "state", "none")), conn=str(pc.connectionState), closing=1 if self.close_started[side] else 0)
        if a.get("then_close") is not None and not self.fired:
            self.close_after = self.iter + int(a["then_close"])     # close() n loop iterations after this action
        self.scan()

    def at_script(self, label, phase):
        for a in self.app:
            t = a["trig"]
            if not a["done"] and t["kind"] == "script" and t["label"] == label and t["phase"] == phase:
                self.do_app(a)
        tr = self.sc["trig"]
        if not self.fired and tr["kind"] == "script" and tr["label"] == label and tr["phase"] == phase:
            self.fire("script:%s.%s" % (label, phase))

    def fire(self, where):
        if self.fired:
            return
        self.fired = True
        self.fired_at = where
        self.info["fired_at"] = where
        self.info["fired_iter"] = self.iter
        sc = self.sc
        x = sc["side"]
        mode = sc["mode"]
        if mode == "single":
            self.close_tasks.append(self.spawn(self.closer(x, 1)))
        elif mode == "both":
            self.close_tasks.append(self.spawn(self.closer(x, 1)))
            self.close_tasks.append(self.spawn(self.closer(other(x), 1)))
        elif mode == "other_first":
            self.close_tasks.append(self.spawn(self.other_first(x)))
        elif mode == "twice_concurrent":
            self.close_tasks.append(self.spawn(self.closer(x, 1)))
            self.close_tasks.append(self.spawn(self.closer(x, 2)))
        else:
            raise ValueError(mode)

    async def other_first(self, x):
        await self.closer(other(x), 1)
        gap = self.sc.get("gap_ms", 0) / 1000.0
        if gap > 0:
            await asyncio.sleep(gap)
        await self.closer(x, 1)

    async def closer(self, side, n):
        pc = self.pcs[side]
        if n >= 2 and self.close_started[side]:
            self.observe(side, final=False)      # the state a later close() must leave alone
        self.close_started[side] = True
        self.log(op="close_call", side=side, n=n, inflight=self.current.get(side, ""))
        exc = ""
        try:
            await asyncio.wait_for(pc.close(), CLOSE_BOUND)
            res = "ok"
        except asyncio.TimeoutError:
            res = "timeout"
        except asyncio.CancelledError:
            raise
        except BaseException as e:  # noqa
            res = "raised"
            exc = "%s: %s" % (type(e).__name__, e)
        self.log(op="close_ret", side=side, n=n, res=res, exc=exc[:200])
        if self.marks["peer_closed"][other(side)] is None:
            self.marks["peer_closed"][other(side)] = self.iter
        self.observe(side, final=False)
        return res

    # ------------------------------------------------------------------ observation
    def observe(self, side, final):
        pc = self.pcs[side]
        rec = dict(op="observe", side=side, final=1 if final else 0,
                   sig=str(pc.signalingState), ice=str(pc.iceConnectionState), conn=str(pc.connectionState),
                   channels=[str(c.readyState) for c in self.channels[side]])
        if final:
            rec["tracks"] = ["ended" if t.readyState == "ended" else "live" for t in self.tracks[side]]
            rec["rx_started"] = [self.rx_started(side, t) for t in self.tracks[side]]   # informational
            tasks, threads = self.census()
            rec["tasks"] = tasks[side]
            rec["threads"] = threads[side]
        self.log(**rec)
        return rec

    def rx_started(self, side, track):
        try:
            for r in self.pcs[side].getReceivers():
                if r.track is track:
                    return "yes" if getattr(r, "_RTCRtpReceiver__started") else "no"
        except Exception:
            pass
        return "?"

    def census(self):
        """Pending asyncio tasks created by aiortc / aioice code and new threads, per side."""
        self.scan()
        tasks = {"A": [], "B": []}
        cur = asyncio.current_task()
        for t in asyncio.all_tasks():
            if t is cur or t in self.my_tasks or t.done():
                continue
            coro = t.get_coro()
            code = getattr(coro, "cr_code", None)
            fn = code.co_filename if code is not None else ""
            parts = fn.replace("\\", "/").split("/")
            if "aiortc" not in parts and "aioice" not in parts:
                continue
            name = getattr(coro, "__qualname__", None) or repr(coro)
            frame = getattr(coro, "cr_frame", None)
            owner = None
            if frame is not None:
                me = frame.f_locals.get("self")
                if me is not None:
                    owner = self.owner.get(id(me))
            if owner is None:
                tasks["A"].append("?" + name)
                tasks["B"].append("?" + name)
            else:
                tasks[owner].append(name)
        threads = {"A": [], "B": []}
        loop = asyncio.get_event_loop()
        pool = getattr(loop, "_default_executor", None)
        pool_threads = set(getattr(pool, "_threads", ()) or ())
        for th in threading.enumerate():
            if th in self.pre_threads or th in pool_threads or not th.is_alive():
                continue
            if th.name.startswith("asyncio_"):
                continue
            owner = None
            for side, pc in self.pcs.items():
                try:
                    for r in pc.getReceivers():
                        if getattr(r, "_RTCRtpReceiver__decoder_thread", None) is th:
                            owner = side
                except Exception:
                    pass
            if owner is None:
                threads["A"].append("?" + th.name)
                threads["B"].append("?" + th.name)
            else:
                threads[owner].append(th.name)
        for name, owner in getattr(self, "late_tasks", []):
            for sd in ([owner] if owner in tasks else ["A", "B"]):
                tasks[sd].append("late:" + name)
        for d in (tasks, threads):
            for s in d:
                d[s].sort()
        return tasks, threads

    async def time_passes(self):
        """After every close() has returned and the loop is quiet: the timers of aiortc / aioice
        objects that are still armed fire now (time passes).  A task they start is a task started
        by a closed connection; it is recorded even if it has ended again by the final census."""
        loop = asyncio.get_event_loop()
        self.late_tasks = []

        def factory(lp, coro, **kw):
            task = asyncio.Task(coro, loop=lp, **kw)
            try:
                code = getattr(coro, "cr_code", None)
                parts = (code.co_filename if code is not None else "").replace("\\", "/").split("/")
                if "aiortc" in parts or "aioice" in parts:
                    frame = getattr(coro, "cr_frame", None)
                    me = frame.f_locals.get("self") if frame is not None else None
                    self.late_tasks.append((getattr(coro, "__qualname__", None) or repr(coro), self.owner.get(id(me))))
            except Exception:  # noqa
                pass
            return task
        fired = 0
        loop.set_task_factory(factory)
        try:
            for h in list(getattr(loop, "_scheduled", [])):
                if h._cancelled:
                    continue
                cb = h._callback
                me = getattr(cb, "__self__", None)
                mod = type(me).__module__ if me is not None else ""
                if mod.startswith("aiortc") or mod.startswith("aioice"):
                    args = h._args
                    h.cancel()
                    fired += 1
                    try:
                        cb(*args)
                    except Exception as e:  # noqa  (a failing timer callback is not a task: noted only)
                        self.info.setdefault("timer_callbacks_raised", []).append(
                            "%s: %s" % (getattr(cb, "__qualname__", "?"), type(e).__name__))
            for _ in range(6):
                await asyncio.sleep(0)
        finally:
            loop.set_task_factory(None)
        self.info["timers_fired_after_close"] = fired

    def clean(self):
        tasks, threads = self.census()
        if any(tasks.values()) or any(threads.values()):
            return False
        return all(t.readyState == "ended" for s in SIDES for t in self.tracks[s])

    # ------------------------------------------------------------------ the script
    def build(self):
        from aiortc import RTCConfiguration, RTCPeerConnection
        from aiortc.mediastreams import AudioStreamTrack
        from aiortc.rtcconfiguration import RTCBundlePolicy
        cfg = self.sc["cfg"]
        for side in SIDES:
            pol = RTCBundlePolicy(cfg.get("bundle" + side, "balanced"))
            pc = RTCPeerConnection(RTCConfiguration(iceServers=[], bundlePolicy=pol))
            self.pcs[side] = pc
            self.hook_emitter(side, "pc", pc)
        a, b = self.pcs["A"], self.pcs["B"]

        def mk(kind):
            return AudioStreamTrack() if kind == "audio" else _small_video_track()
        direction = cfg.get("dir", "sendrecv")
        if cfg.get("dc") in ("offerer", "both") and cfg.get("dc_first"):
            self.add_channel("A", a.createDataChannel("c19"))
        for kind in cfg.get("media", []):
            if direction == "recvonly":
                a.addTransceiver(kind, direction="recvonly")
            elif cfg.get("via") == "transceiver":
                a.addTransceiver(mk(kind), direction=direction)
            else:
                a.addTrack(mk(kind))
                if direction == "sendonly":
                    a.getTransceivers()[-1].direction = "sendonly"
            if cfg.get("answer_track", True) and direction != "sendonly":
                b.addTrack(mk(kind))
        if cfg.get("dc") in ("offerer", "both") and not cfg.get("dc_first"):
            self.add_channel("A", a.createDataChannel("c19"))
        if cfg.get("dc") == "both":
            self.add_channel("B", b.createDataChannel("c19b"))
        self.scan()

    async def call(self, side, name, *args, rnd=1):
        if self.close_started[side]:
            raise ScriptStop
        pc = self.pcs[side]
        label = "%s.%s" % (side, name) + ("@%d" % rnd if rnd > 1 else "")
        self.at_script(label, "enter")
        self.current[side] = name
        try:
            res = await getattr(pc, name)(*args)
        except Exception as e:  # noqa
            self.info.setdefault("call_errors", []).append("%s: %s: %s" % (label, type(e).__name__, str(e)[:80]))
            self.scan()
            raise ScriptStop
        finally:
            self.current.pop(side, None)
        self.scan()
        self.at_script(label, "exit")
        return res

    def signal(self, desc):
        """The description as it travels to the other side (SDP text only); `no_bundle`
        models a remote that is not bundle-aware: every m-section keeps its own transport."""
        from aiortc import RTCSessionDescription
        sdp = desc.sdp
        if self.sc["cfg"].get("no_bundle"):
            sdp = "".join(line for line in sdp.splitlines(True) if not line.startswith("a=group:BUNDLE"))
        return RTCSessionDescription(sdp=sdp, type=desc.type)

    def any_closing(self):
        return self.close_started["A"] or self.close_started["B"]

    async def wait_for(self, cond, bound):
        t0 = time.time()
        while not cond():
            if self.any_closing() or time.time() - t0 > bound:
                return False
            await asyncio.sleep(0.005)
        return True

    async def script(self):
        a, b = self.pcs["A"], self.pcs["B"]
        cfg = self.sc["cfg"]
        try:
            self.at_script("pre", "enter")
            await asyncio.sleep(0)
            offer = await self.call("A", "createOffer")
            await self.call("A", "setLocalDescription", offer)
            await self.call("B", "setRemoteDescription", self.signal(a.localDescription))
            answer = await self.call("B", "createAnswer")
            await self.call("B", "setLocalDescription", answer)
            await self.call("A", "setRemoteDescription", self.signal(b.localDescription))
            self.at_script("post", "enter")
            if cfg.get("reneg"):
                # a second offer/answer round started at once by side `reneg`, i.e. while ICE / DTLS of
                # the first round are still in progress: further __connect coroutines queue up behind
                # the one that owns iceTransport.start() / dtlsTransport.start()
                x = cfg["reneg"]
                y = other(x)
                px, py = self.pcs[x], self.pcs[y]
                if cfg.get("reneg_add") == "dc":
                    self.add_channel(x, px.createDataChannel("c19r"))
                elif cfg.get("reneg_add"):
                    px.addTransceiver(cfg["reneg_add"], direction="sendrecv")
                offer2 = await self.call(x, "createOffer", rnd=2)
                await self.call(x, "setLocalDescription", offer2, rnd=2)
                await self.call(y, "setRemoteDescription", self.signal(px.localDescription), rnd=2)
                answer2 = await self.call(y, "createAnswer", rnd=2)
                await self.call(y, "setLocalDescription", answer2, rnd=2)
                await self.call(x, "setRemoteDescription", self.signal(py.localDescription), rnd=2)
                self.at_script("post@2", "enter")

            def connected():
                if a.connectionState != "connected" or b.connectionState != "connected":
                    return False
                return all(c.readyState == "open" for s in SIDES for c in self.channels[s]) and \
                    (cfg.get("dc", "none") == "none" or len(self.channels["B"]) > 0)
            if not await self.wait_for(connected, self.sc.get("connect_bound", CONNECT_BOUND)):
                raise ScriptStop
            self.info["connected_iter"] = self.iter
            self.at_script("connected", "enter")
            # traffic
            for s in SIDES:
                for c in self.channels[s]:
                    if c.readyState == "open":
                        c.send("hello from " + s)
            want_media = bool(cfg.get("media"))
            direction = cfg.get("dir", "sendrecv")

            def flowing():
                if cfg.get("dc", "none") != "none" and not (self.msgs["A"] and self.msgs["B"]):
                    return False
                if want_media:
                    if direction != "recvonly" and not self.frames["B"]:
                        return False
                    if direction == "recvonly" and cfg.get("answer_track", True) and not self.frames["A"]:
                        return False
                return True
            if not await self.wait_for(flowing, self.sc.get("connect_bound", CONNECT_BOUND)):
                raise ScriptStop
            self.info["flowing_iter"] = self.iter
            self.at_script("flowing", "enter")
            await asyncio.sleep(self.sc.get("flow_ms", 60) / 1000.0)
            self.at_script("end", "enter")
        except ScriptStop:
            pass

    async def main(self):
        loop = asyncio.get_event_loop()
        orig_once = loop._run_once
        tr = self.sc["trig"]

        def run_once():
            self.iter += 1
            if tr["kind"] == "iter" and not self.fired and self.iter >= tr["k"]:
                self.fire("iter:%d" % self.iter)
            if getattr(self, "close_after", None) is not None and not self.fired and self.iter >= self.close_after:
                self.fire("after_app:%d" % self.iter)
            if self.app:
                for side, pc in self.pcs.items():
                    if self.marks["sctp_closed"][side] is None:
                        sctp = getattr(pc, "sctp", None)
                        if sctp is not None and getattr(sctp, "state", None) == "closed":
                            self.marks["sctp_closed"][side] = self.iter
                self.app_poll()
            orig_once()
        self.build()
        loop._run_once = run_once
        self.iter = 0
        if tr["kind"] == "delay":
            loop.call_later(tr["ms"] / 1000.0, lambda: self.fire("delay:%s" % tr["ms"]))
        try:
            await self.script()
            self.info["end_iter"] = self.iter
            if not self.fired:
                # the requested point does not occur in this configuration: close at the end
                self.info["fallback"] = 1
                self.fire("fallback")
            while any(not t.done() for t in self.close_tasks):
                await asyncio.sleep(0.002)
            settle = self.sc.get("settle_ms", 0) / 1000.0
            if settle:
                await asyncio.sleep(settle)
            # close what is still open, then the second close on both sides
            for side in SIDES:
                if not self.close_started[side]:
                    await self.closer(side, 1)
            for side in SIDES:
                await self.closer(side, 2 if self.sc["mode"] != "twice_concurrent" or side != self.sc["side"] else 3)
            # grace period: until clean, at most GRACE_MAX seconds and GRACE_ITERS iterations
            t0, i0 = time.time(), self.iter
            while not self.clean():
                if time.time() - t0 > GRACE_MAX and self.iter - i0 > GRACE_ITERS:
                    break
                await asyncio.sleep(0.01)
            self.info["grace_s"] = round(time.time() - t0, 3)
            await self.time_passes()
            for side in SIDES:
                self.observe(side, final=True)
        finally:
            loop._run_once = orig_once
        # leave nothing behind for the next scenario of this worker
        left = [t for t in asyncio.all_tasks() if t is not asyncio.current_task()]
        for t in left:
            t.cancel()
        if left:
            await asyncio.wait(left, timeout=2.0)


def run_scenario(sc):
    """Execute one scenario in a fresh event loop; returns the trace object."""
    global _CTX
    _install_wrappers()
    logging.disable(logging.CRITICAL)
    loop = asyncio.new_event_loop()
    asyncio.set_event_loop(loop)
    loop.set_exception_handler(lambda l, c: None)
    run = Run(sc)
    _CTX = run
    t0 = time.time()
    err = None
    try:
        loop.run_until_complete(run.main())
    except Exception as e:  # harness-side failure: reported as machinery, never as a violation
        import traceback
        err = "%s: %s\n%s" % (type(e).__name__, e, traceback.format_exc()[-1500:])
    finally:
        _CTX = None
        try:
            loop.run_until_complete(loop.shutdown_asyncgens())
        except Exception:
            pass
        try:
            ex = getattr(loop, "_default_executor", None)
            if ex is not None:
                ex.shutdown(wait=False)
        except Exception:
            pass
        loop.close()
        asyncio.set_event_loop(None)
    run.info["wall_s"] = round(time.time() - t0, 3)
    run.info["iters"] = run.iter
    run.info["counts"] = {"%s.%s.%s" % k: v for k, v in sorted(run.counts.items())}
    return {"id": sc["id"], "sc": sc, "steps": run.steps, "info": run.info, "error": err}


# =============================================================================
# worker pool (a frozen event loop must not freeze the check)
# =============================================================================

def _worker_main(conn):
    global _STEP_SINK
    try:
        import signal
        signal.signal(signal.SIGINT, signal.SIG_IGN)
    except Exception:
        pass
    sys.stderr = open(os.devnull, "w")
    while True:
        try:
            sc = conn.recv()
        except EOFError:
            return
        if sc is None:
            return
        _STEP_SINK = lambda rec: conn.send(("step", sc["id"], rec))  # noqa: E731
        try:
            res = run_scenario(sc)
        except BaseException as e:  # noqa
            res = {"id": sc["id"], "sc": sc, "steps": [], "info": {}, "error": "worker: %r" % (e,)}
        _STEP_SINK = None
        conn.send(("result", sc["id"], res))


class Pool:
    def __init__(self, n):
        self.ctx = multiprocessing.get_context("fork")
        self.workers = []
        for _ in range(n):
            self.workers.append(self._spawn())
        self.killed = 0

    def _spawn(self):
        a, b = self.ctx.Pipe()
        p = self.ctx.Process(target=_worker_main, args=(b,), daemon=True)
        p.start()
        b.close()
        return {"p": p, "conn": a, "job": None, "t0": 0.0, "steps": []}

    def run(self, scenarios, deadline=SCENARIO_DEADLINE, budget=None):
        """Run all scenarios; returns {id: result}.  With `budget` (seconds) scenarios that
        have not been started when it is used up are skipped (reported by the caller)."""
        from multiprocessing.connection import wait
        todo = list(scenarios)
        todo.reverse()
        results = {}
        t_start = time.time()
        busy = 0
        while todo or busy:
            for w in self.workers:
                if w["job"] is None and todo:
                    if budget is not None and time.time() - t_start > budget:
                        todo = []
                        break
                    sc = todo.pop()
                    w["job"], w["t0"], w["steps"] = sc, time.time(), []
                    w["conn"].send(sc)
                    busy += 1
            ready = wait([w["conn"] for w in self.workers if w["job"] is not None], timeout=0.25)
            for i, w in enumerate(self.workers):
                if w["job"] is None:
                    continue
                dead = False
                if w["conn"] in ready:
                    try:
                        while w["conn"].poll():
                            kind, sid, payload = w["conn"].recv()
                            if kind == "step":
                                w["steps"].append(payload)
                            else:
                                results[sid] = payload
                                w["job"] = None
                                busy -= 1
                                break
                    except (EOFError, OSError):
                        dead = True
                if w["job"] is not None and (dead or time.time() - w["t0"] > deadline or not w["p"].is_alive()):
                    sc = w["job"]
                    try:
                        w["p"].kill()
                        w["p"].join(5)
                    except Exception:
                        pass
                    self.killed += 1
                    results[sc["id"]] = _frozen_result(sc, w["steps"], dead)
                    busy -= 1
                    self.workers[i] = self._spawn()
        return results

    def close(self):
        for w in self.workers:
            try:
                w["conn"].send(None)
            except Exception:
                pass
        for w in self.workers:
            w["p"].join(2)
            if w["p"].is_alive():
                w["p"].kill()


def _frozen_result(sc, steps, died):
    """The worker had to be killed: the loop was frozen (or the process died).  If a close()
    call was outstanding it did not return within the bound: record that; otherwise the
    hang is not close()'s and the execution is only counted."""
    steps = list(steps)
    out = {}
    for s in steps:
        if s.get("op") == "close_call":
            out[(s["side"], s["n"])] = True
        elif s.get("op") == "close_ret":
            out.pop((s["side"], s["n"]), None)
    for (side, n) in sorted(out):
        steps.append({"op": "close_ret", "side": side, "n": n, "res": "timeout",
                      "exc": "event loop frozen or worker dead: killed after the scenario deadline"})
    return {"id": sc["id"], "sc": sc, "steps": steps, "info": {"killed": 1, "died": bool(died)},
            "error": None if out else "worker killed outside close() (deadline %ss)" % SCENARIO_DEADLINE}


# =============================================================================
# TLC configurations
# =============================================================================

TRACE_CFG = """SPECIFICATION TraceSpec
CONSTANTS
 Shapes = {}
 Roles = {}
 PeerGoes = {}
 Deviations = {}
 DevSel = {}
 AppChans = {}
 Levels = {}
 Users = {}
CHECK_DEADLOCK FALSE
"""

SAFETY = ["PostStates", "NoLateEvent", "SettledOK", "WitnessProbe"]
WITNESSES = ["WitCloseAtIceConn", "WitCloseAtDtlsHs", "WitCloseFlowing", "WitCloseInNeg", "WitAutoClose",
             "WitSecondWaits", "WitSecondAfter", "WitPeerGoneFirst", "WitRcvStartedWait", "WitIceFix", "WitLateChannel",
             "WitIceWaitClosing", "WitTimerAtClose"]
# deviation -> what TLC must report with exactly that defect re-enabled in the model
DEVIATIONS = {
    "ConsentAfterClose": "SettledOK", "SigAfterClose": "PostStates", "TrackNotEnded": "SettledOK",
    "MediaAfterClose": "SettledOK", "NoRtcpWait": "SettledOK", "SkipSctpStop": "PostStates",
    "NotIdempotent": "NoLateEvent", "DecoderNotJoined": "SettledOK", "SctpStopGuard": "PostStates",
    "ChanOnClosed": "PostStates", "StartEventSkipped": "SettledOK", "ReconfigTimerSurvivesStop": "SettledOK",
}


def tla_set(items):
    return "{" + ", ".join('"%s"' % x if isinstance(x, str) else ("TRUE" if x else "FALSE") for x in items) + "}"


def model_cfg(shapes, roles, pg, users, deviations=(), invariants=SAFETY, props=("SecondCloseNoop",), view=True,
              spec="Spec", devsel=("none",), levels=(0,), app=(0,)):
    lines = ["SPECIFICATION " + spec, "CONSTANTS",
             " Shapes = " + tla_set(shapes), " Roles = " + tla_set(roles), " PeerGoes = " + tla_set(pg),
             " Deviations = " + tla_set(sorted(deviations)), " DevSel = " + tla_set(devsel),
             " AppChans = {" + ", ".join(str(x) for x in app) + "}",
             " Levels = {" + ", ".join(str(x) for x in levels) + "}", " Users = " + tla_set(users)]
    if view:
        lines.append("VIEW View")
    lines += ["INVARIANT " + i for i in invariants]
    lines += ["PROPERTY " + p for p in props]
    lines.append("CHECK_DEADLOCK FALSE")
    return "\n".join(lines) + "\n"


ALL_SHAPES = ["m", "d", "md", "md2"]
BOTH_ROLES = ["offerer", "answerer"]


def as_is_deviations(rep):
    """Deviations that describe the tree as it is: the model deviations named by the C19
    entries of known_findings.json that are still findings."""
    devs = set()
    for k in rep.known:
        d = k.get("model_deviation")
        if d:
            devs.add(d)
    return sorted(devs)


# =============================================================================
# interruption points
# =============================================================================

def shape_cfg(shape, variant=0):
    kinds = ["audio", "video"]
    if shape == "m":
        return {"media": [kinds[variant % 2]], "dc": "none"}
    if shape == "d":
        return {"media": [], "dc": "offerer"}
    if shape == "md":
        return {"media": [kinds[variant % 2]], "dc": "offerer",
                "bundleA": ["balanced", "max-bundle"][variant // 2 % 2], "bundleB": "balanced"}
    if shape == "md2":
        return {"media": [kinds[variant % 2]], "dc": "offerer", "no_bundle": True,
                "bundleA": "max-compat", "bundleB": "max-compat"}
    raise ValueError(shape)


def _model_quiet(s):
    """Projection of a model state onto `no task, no thread` (TaskNames / ThreadNames of PcLife)."""
    live = ("ready", "run", "cancelled", "cancelled0")
    return not (any(m in ("waiting", "woken") for m in s["mon"])
                or any(c["consent"] in ("run", "cancelled") or c["check"] in ("run", "cancelled") for c in s["conn"])
                or any(d["pump"] in live for d in s["dtls"])
                or any(c["lbl"] not in ("idle", "done") for c in s["co"])
                or s["snd"]["rtp"] in live or s["snd"]["rtcp"] in live or s["rcv"]["rtcp"] in live
                or s["cl"]["auto"]["lbl"] not in ("idle", "done")
                or s["rcv"]["dec"] == "run")


def point_from_behaviour(beh, variant):
    """Translate a TLC behaviour of PcLife into a scenario for the real pair:
    where were the model's coroutines suspended when close() was called?"""
    idx = None
    for i, (action, state) in enumerate(beh):
        a = state.get("act") or {}
        if a.get("op") == "close_call" and a.get("k") == "u1":
            idx = i
            break
    if idx is None or idx == 0:
        return None
    pre = beh[idx - 1][1]["st"]
    last = beh[-1][1]["st"]
    cfg = pre["cfg"]
    shape = "md2" if cfg["nt"] == 2 else ("md" if cfg["media"] and cfg["dc"] else ("m" if cfg["media"] else "d"))
    side = "A" if cfg["role"] == "offerer" else "B"
    ops = [st.get("act", {}).get("op") for _, st in beh]
    peer_before = "peer_goes" in ops[:idx]
    peer_after = "peer_goes" in ops[idx:]
    second = None
    for i, (action, state) in enumerate(beh[idx:]):
        a = state.get("act") or {}
        if a.get("op") == "close_call" and a.get("k") == "u2":
            second = "concurrent" if not beh[idx + i - 1][1]["st"]["ret"]["u1"] else "after"
            break
    co = pre["co"]
    labels = [c["lbl"] for c in co]
    nsec = (1 if cfg["media"] else 0) + (1 if cfg["dc"] else 0)

    def sec_t(k):
        return 2 if (cfg["nt"] == 2 and k == 2) else 1
    trig = None
    for ci, c in enumerate(co):
        if c["lbl"] == "dtlshs":
            trig = {"kind": "label", "side": side, "label": "dtls_start", "phase": "enter", "n": 1 if sec_t(c["k"]) == 1 else 2}
    if trig is None:
        for ci, c in enumerate(co):
            if c["lbl"] in ("iceconn", "icefix"):
                t = sec_t(c["k"])
                conn = pre["conn"][t - 1]
                if conn["res"] == "completed":
                    trig = {"kind": "label", "side": side, "label": "ice_check_done", "phase": "exit", "n": t}
                else:
                    trig = {"kind": "label", "side": side, "label": "ice_start", "phase": "enter", "n": t}
    if trig is None and "icewait" in labels:
        trig = {"kind": "label", "side": side, "label": "ice_start", "phase": "enter", "n": 2}
    if trig is None and pre["sl"] == "gather":
        trig = {"kind": "label", "side": side, "label": "gather", "phase": "enter", "n": 1}
    if trig is None and pre["sr"] == "cands":
        trig = {"kind": "script", "label": side + ".setRemoteDescription", "phase": "enter"}
    if trig is None and "start" in labels:
        first = "setLocalDescription" if (cfg["role"] == "offerer") == (pre["sr"] == "idle") else "setRemoteDescription"
        trig = {"kind": "script", "label": side + "." + first, "phase": "exit"}
    if trig is None:
        if pre["snd"]["started"] or pre["sctp"]["started"]:
            trig = {"kind": "script", "label": "flowing" if pre["chan"] in ("open", "none") else "connected", "phase": "enter"}
        elif pre["sl"] == "idle" and pre["sr"] == "idle":
            trig = {"kind": "script", "label": "pre", "phase": "enter"}
        elif pre["sl"] == "done" and pre["sr"] == "done":
            trig = {"kind": "script", "label": "post", "phase": "enter"}
        else:
            first = "createAnswer" if cfg["role"] == "answerer" else "setLocalDescription"
            trig = {"kind": "script", "label": "B.setRemoteDescription" if side == "A" else "B." + first, "phase": "exit"}
    if second == "concurrent":
        mode = "twice_concurrent"
    elif peer_before:
        mode = "other_first"
    elif peer_after:
        mode = "both"
    else:
        mode = "single"
    # the application's late channel: where was the connection when it was created?
    app = []
    gap = [0, 3, 40][variant % 3]
    for j in range(1, idx):
        if (beh[j][1].get("act") or {}).get("op") == "app_chan":
            pa = beh[j - 1][1]["st"]
            if pa["sctp"]["dead"]:
                at = {"kind": "sctp_closed", "plus": 1 + variant % 2}
                gap = 80                       # the remote side closes first; leave room for the late creation
            elif pa["sl"] == "idle" and pa["sr"] == "idle":
                at = {"kind": "script", "label": "pre", "phase": "enter"}
            elif pa["snd"]["started"] or pa["sctp"]["started"]:
                at = {"kind": "script", "label": "connected", "phase": "enter"}
            elif pa["sl"] == "done" and pa["sr"] == "done":
                at = {"kind": "script", "label": "post", "phase": "enter"}
            else:
                at = {"kind": "script", "label": "B.setRemoteDescription", "phase": "exit"}
            app.append({"what": "dc", "side": side, "trig": at})
    expect = {"sig": last["sig"], "ice": last["pcIce"], "conn": last["pcConn"],
              "chan_closed": last["chan"] in ("none", "closed") and last["chan2"] in ("none", "closed"),
              "track_ok": not (last["trk"]["st"] == "live" and not last["trk"]["ended"]),
              "nothing_running": _model_quiet(last)}
    return {"cfg": shape_cfg(shape, variant), "trig": trig, "mode": mode, "side": side, "app": app, "connect_bound": 6.0,
            "gap_ms": gap, "settle_ms": 20, "src": "tlc",
            "model": {"shape": shape, "role": cfg["role"], "co": labels, "sl": pre["sl"], "sr": pre["sr"],
                      "second": second, "expect": expect, "late": sorted(last["late"])}}


def point_key(p):
    return json.dumps([p["cfg"], p["trig"], p["mode"], p["side"], p.get("app")], sort_keys=True)


SAMPLE_CFGS = [
    {"media": ["audio"], "dc": "offerer"},
    {"media": ["video"], "dc": "none"},
    {"media": [], "dc": "offerer"},
    {"media": ["audio"], "dc": "both", "no_bundle": True, "bundleA": "max-compat", "bundleB": "max-compat"},
    {"media": ["audio", "video"], "dc": "offerer", "dc_first": True, "bundleA": "balanced", "bundleB": "max-bundle"},
    {"media": ["audio"], "dc": "none", "dir": "sendonly", "via": "transceiver"},
    {"media": ["video"], "dc": "offerer", "dir": "recvonly"},
    {"media": ["audio"], "dc": "none", "answer_track": False},
]
MODES = ["single", "both", "other_first", "twice_concurrent"]


def product_points(r, thorough):
    """label x phase x side x mode products, script labels (incl. negotiation calls in flight).
    quick: every label/phase/side once on the first configuration (mode rotating, `single`
    guaranteed for the first occurrence), a seeded sample on three more configurations."""
    pts = []
    cfgs = SAMPLE_CFGS[:6] if thorough else SAMPLE_CFGS[:4]
    for ci, cfg in enumerate(cfgs):
        for side in SIDES:
            for lab in LABELS:
                for ph in (("exit",) if lab == "ice_check_done" else ("enter", "exit")):
                    for n in (1, 2):
                        if thorough:
                            modes = ["single", MODES[1 + len(pts) % 3]] if n == 1 else [MODES[len(pts) % 4]]
                        elif ci == 0 and n == 1:
                            modes = ["single", MODES[1 + len(pts) % 3]]
                        elif ci == 0 or r.random() < 0.12:
                            modes = [MODES[len(pts) % 4]]
                        else:
                            continue
                        for mode in modes:
                            pts.append({"cfg": cfg, "trig": {"kind": "label", "side": side, "label": lab, "phase": ph, "n": n},
                                        "mode": mode, "side": side, "src": "label"})
            for lab in ("pre",) + SCRIPT_CALLS + ("post", "connected", "flowing", "end"):
                for ph in ("enter", "exit"):
                    if lab in ("pre", "post", "connected", "flowing", "end") and ph == "exit":
                        continue
                    if thorough:
                        modes = ["single", MODES[1 + len(pts) % 3]]
                    elif ci == 0:
                        modes = ["single", MODES[1 + len(pts) % 3]] if ph == "enter" else [MODES[len(pts) % 4]]
                    elif r.random() < 0.15:
                        modes = [MODES[len(pts) % 4]]
                    else:
                        continue
                    for mode in modes:
                        pts.append({"cfg": cfg, "trig": {"kind": "script", "label": lab, "phase": ph},
                                    "mode": mode, "side": side, "src": "script"})
    for p in pts:
        p["gap_ms"] = r.choice([0, 0, 2, 20, 300])
        p["settle_ms"] = r.choice([0, 20, 20, 200])
    return pts


def iteration_points(r, refs, thorough):
    """close() at event-loop iteration k of the reference run of each configuration."""
    pts = []
    for ci, (cfg, ref) in enumerate(refs[:4] if thorough else refs):
        end = max(10, int(ref.get("end_iter") or ref.get("iters") or 150))
        ks = list(range(1, end + 1))
        if thorough:
            for k in ks:
                for side in SIDES:
                    mode = "single" if (k + ci) % 3 else r.choice(MODES[1:])
                    pts.append({"cfg": cfg, "trig": {"kind": "iter", "k": k}, "mode": mode, "side": side, "src": "iter"})
        else:
            dense = int(ref.get("connected_iter") or end)
            pick = set(r.sample(ks[:dense], min(len(ks[:dense]), 28 if ci == 0 else 8)))
            pick |= set(r.sample(ks, min(len(ks), 6 if ci == 0 else 2)))
            for k in sorted(pick):
                pts.append({"cfg": cfg, "trig": {"kind": "iter", "k": k}, "mode": r.choice(["single", "single", "both", "other_first"]),
                            "side": r.choice(SIDES), "src": "iter"})
    for p in pts:
        p["gap_ms"] = r.choice([0, 2, 20])
        p["settle_ms"] = r.choice([0, 20, 200])
    return pts


LATE_TRIGS = ([{"kind": "chan_closed", "plus": n} for n in (0, 1, 2, 3, 5)]
              + [{"kind": "sctp_closed", "plus": n} for n in (0, 1, 2, 4)]
              + [{"kind": "peer_closed", "plus": n} for n in (0, 1, 3)])


def app_points(r, refs, thorough):
    """The application creates data channels / adds transceivers at arbitrary points.
    Family `late`: the remote side closes first; the local application creates a channel
    (or adds a transceiver) n loop iterations after its channel closed / its SCTP transport
    reported closed / the peer's close() returned - i.e. after the association died by
    itself and before (or while) the local connection closes; then local close(), twice.
    Family `any`: the action at a random label / script label / iteration, close() at another."""
    pts = []
    cfgs = [SAMPLE_CFGS[0], SAMPLE_CFGS[2], SAMPLE_CFGS[3]] if thorough else [SAMPLE_CFGS[0], SAMPLE_CFGS[2]]
    for ci, cfg in enumerate(cfgs):
        for x in SIDES:
            for ti, trig in enumerate(LATE_TRIGS):
                whats = ["dc", "audio"] if thorough else (["dc"] if (ti + ci) % 4 else ["dc", "audio"])
                if not thorough and ci == 1 and ti % 2:
                    continue
                for what in whats:
                    pts.append({"cfg": cfg, "trig": {"kind": "script", "label": ["flowing", "connected", "end"][(ti + ci) % 3], "phase": "enter"},
                                "mode": "single", "side": x, "gap_ms": 0, "settle_ms": [60, 250][ti % 2], "src": "app",
                                "app": [{"what": what, "side": other(x), "trig": dict(trig)}]})
    # Family `close_dc`: the application closes an open channel and the connection is closed n loop
    # iterations later, i.e. while the stream reset is unanswered (its retransmission timer armed).
    for ci, cfg in enumerate([SAMPLE_CFGS[0], SAMPLE_CFGS[2]] + ([SAMPLE_CFGS[3]] if thorough else [])):
        for x in SIDES:
            for y in SIDES:
                for n in ((0, 1, 2, 3, 5, 8) if thorough else ((0, 2) if (ci + (x == y)) % 2 else (1, 4))):
                    pts.append({"cfg": cfg, "trig": {"kind": "script", "label": "end", "phase": "enter"}, "mode": "single" if n % 2 == 0 else "both",
                                "side": y, "gap_ms": 0, "settle_ms": 20, "src": "app",
                                "app": [{"what": "close_dc", "side": x, "trig": {"kind": "script", "label": "flowing", "phase": "enter"},
                                         "then_close": n}]})
    labs = [("script", l, "enter") for l in ("pre",) + SCRIPT_CALLS + ("post", "connected", "flowing")]
    labs += [("script", l, "exit") for l in SCRIPT_CALLS]
    labs += [("label", l, ph) for l in LABELS for ph in (("exit",) if l == "ice_check_done" else ("enter", "exit"))]
    for i in range(400 if thorough else 24):
        cfg, ref = refs[i % len(refs)]
        side = r.choice(SIDES)

        def pick(sd):
            if r.random() < 0.25:
                return {"kind": "iter", "k": r.randint(1, max(2, int(ref.get("end_iter") or 120)))}
            kind, lab, ph = r.choice(labs)
            if kind == "script":
                return {"kind": "script", "label": lab, "phase": ph}
            return {"kind": "label", "side": sd, "label": lab, "phase": ph, "n": 1}
        aside = r.choice(SIDES)
        apps = [{"what": r.choice(["dc", "dc", "audio", "video"]), "side": aside, "trig": pick(aside)}]
        if r.random() < 0.3:
            a2 = other(aside)
            apps.append({"what": r.choice(["dc", "audio"]), "side": a2, "trig": r.choice(LATE_TRIGS) if r.random() < 0.5 else pick(a2)})
        pts.append({"cfg": cfg, "trig": pick(side), "mode": r.choice(MODES), "side": side, "gap_ms": r.choice([0, 2, 30]),
                    "settle_ms": r.choice([0, 20, 100]), "src": "app", "app": apps, "connect_bound": 5.0})
    return pts


def reneg_points(r, thorough):
    """A second negotiation round is started while the first one is still connecting (ICE checks /
    DTLS handshake in flight), so that more than one __connect coroutine waits on the same
    transport; close() at the calls of that round, at loop iterations inside it, and after the
    peer has gone away (ICE keeps checking until the local close())."""
    pts = []
    cfgs = [SAMPLE_CFGS[0], SAMPLE_CFGS[2]] + ([SAMPLE_CFGS[1], SAMPLE_CFGS[4]] if thorough else [])
    calls = ("createOffer", "setLocalDescription", "setRemoteDescription", "createAnswer", "setLocalDescription", "setRemoteDescription")
    for ci, cfg0 in enumerate(cfgs):
        for who in SIDES:
            if not thorough and ci == 1 and who == "B":
                continue
            cfg = dict(cfg0, reneg=who)
            if ci % 2 == 0 and who == "A":
                cfg["reneg_add"] = "dc"
            y = other(who)
            second = ["%s.%s@2" % (sd, nm) for sd, nm in zip((who, who, y, y, y, who), calls)]
            # the peer leaves before / while the second round runs, the local close() follows later
            gone = [("A.setRemoteDescription", "enter"), ("B.setLocalDescription", "exit"), ("post", "enter"),
                    (second[0], "enter"), (second[1], "enter"), (second[1], "exit")]
            for lab, ph in gone:
                for gap in ((30, 300) if thorough else (300,)):
                    pts.append({"cfg": cfg, "trig": {"kind": "script", "label": lab, "phase": ph}, "mode": "other_first",
                                "side": who, "gap_ms": gap, "settle_ms": 20, "src": "reneg", "connect_bound": 5.0})
            # close() at the calls of the second round
            for i, lab in enumerate(second + ["post@2"]):
                for ph in (("enter",) if lab == "post@2" else ("enter", "exit")):
                    if not thorough and (i + ci + (ph == "exit")) % 2:
                        continue
                    pts.append({"cfg": cfg, "trig": {"kind": "script", "label": lab, "phase": ph},
                                "mode": MODES[len(pts) % 4] if thorough or i % 2 else "single", "side": SIDES[len(pts) % 2],
                                "gap_ms": r.choice([0, 2, 20]), "settle_ms": r.choice([0, 20, 200]), "src": "reneg", "connect_bound": 5.0})
            # ... and at loop iterations / transport labels inside it
            for j in range(40 if thorough else 6):
                if j % 3 == 2:
                    trig = {"kind": "label", "side": r.choice(SIDES), "label": r.choice(LABELS[1:]), "phase": r.choice(["enter", "exit"]), "n": r.choice([1, 2])}
                    if trig["label"] == "ice_check_done":
                        trig["phase"] = "exit"
                else:
                    trig = {"kind": "iter", "k": r.randint(8, 90)}
                pts.append({"cfg": cfg, "trig": trig, "mode": r.choice(["single", "single", "both", "other_first"]),
                            "side": trig.get("side", r.choice(SIDES)), "gap_ms": r.choice([0, 2, 20, 300]), "settle_ms": r.choice([0, 20, 200]),
                            "src": "reneg", "connect_bound": 5.0})
    return pts


def delay_points(r, refs, n):
    pts = []
    for i in range(n):
        cfg, ref = refs[i % len(refs)]
        span = max(0.05, float(ref.get("wall_to_end") or 0.5))
        ms = round(r.random() ** 1.5 * span * 1000.0 * 1.2, 2)
        pts.append({"cfg": cfg, "trig": {"kind": "delay", "ms": ms}, "mode": r.choice(MODES), "side": r.choice(SIDES),
                    "gap_ms": r.choice([0, 1, 5, 50]), "settle_ms": r.choice([0, 20, 300]), "src": "delay"})
    return pts


# =============================================================================
# judging and reporting
# =============================================================================

def judge(sc, results, timeout):
    """TLC judges the recorded executions; returns ({id: [(clause, pos, side)]}, TlcResult)."""
    traces = [{"id": r["id"], "steps": r["steps"]} for r in results if not r.get("error")]
    if not traces:
        return {}, None
    val, verdicts = T.validate_traces(sc, "TracePcLife", TRACE_CFG, traces, timeout=timeout)
    if len(verdicts) != len(traces):
        raise T.MachineryError("trace validation incomplete: %d of %d verdicts\n%s"
                               % (len(verdicts), len(traces), val.out[-2000:]))
    fails = {}
    for f in val.printed("FAIL"):
        fails.setdefault(f[1], []).append((f[2], f[3], f[4]))
    for tid, (v, pos) in verdicts.items():
        if v.startswith("machinery"):
            raise T.MachineryError("trace %s: %s at %s" % (tid, v, pos))
        if (v == "ok") != (tid not in fails):
            raise T.MachineryError("trace %s: RESULT %s disagrees with FAIL lines %s" % (tid, v, fails.get(tid)))
    return fails, val


def _context(steps, side):
    """Where was the side's connection establishment when its first close() was called?
    (informational `label` steps; used for signatures only)"""
    open_ = {"ice_start": 0, "dtls_start": 0}
    called = False
    media_after = False
    ice_overlap = False
    for s in steps:
        if s.get("side") != side:
            continue
        if s.get("op") == "close_call" and not called:
            called = True
            ice_overlap = open_["ice_start"] > 0
        elif s.get("op") == "label":
            if not called and s["label"] in open_:
                open_[s["label"]] += 1 if s["phase"] == "enter" else -1
            if called and s["label"] == "ice_start" and s["phase"] == "enter":
                ice_overlap = True
            if called and s["label"] in ("send", "receive") and s["phase"] == "enter":
                media_after = True
    return {"ice_start_overlaps_close": "yes" if ice_overlap else "no",
            "media_started_after_close": "yes" if media_after else "no"}


def signatures(res, clause, pos, side):
    """What distinguishes this failure (for known_findings.json); reporting only - the
    verdict is TLC's.  One signature per leaked task / thread name."""
    steps = res["steps"]
    step = steps[pos - 1] if 0 < pos <= len(steps) else {}
    sig = {"clause": clause}
    inflight = ""
    for s in steps:
        if s.get("op") == "close_call" and s.get("side") == side and s.get("n") == 1:
            inflight = s.get("inflight", "")
    if clause == "C19.task_left_running":
        ctx = _context(steps, side)
        return [dict(sig, task=t, **ctx) for t in sorted(set(step.get("tasks", []))) or ["?"]]
    if clause == "C19.thread_left_running":
        return [dict(sig, thread=t) for t in sorted(set(step.get("threads", []))) or ["?"]]
    if clause == "C19.track_not_ended":
        st = [step.get("rx_started", ["?"] * len(step.get("tracks", [])))[i]
              for i, t in enumerate(step.get("tracks", [])) if t != "ended"]
        sig["receiver_started"] = ",".join(sorted(set(st)))
    elif clause == "C19.state_not_closed":
        which = [n for n, f in (("signalingState", "sig"), ("iceConnectionState", "ice"), ("connectionState", "conn"))
                 if step.get(f) != "closed"]
        sig["which"] = ",".join(which)
        sig["inflight"] = inflight
    elif clause == "C19.event_after_close":
        closed = False
        evs = set()
        for s in steps:
            if s.get("side") != side:
                continue
            if s.get("op") == "close_ret" and s.get("res") == "ok":
                closed = True
            elif s.get("op") == "event" and closed and not (s.get("src") == "track" and s.get("name") == "ended"):
                evs.add("%s:%s" % (s["src"], s["name"]))
        sig["events"] = ",".join(sorted(evs))
        sig["inflight"] = inflight
    elif clause == "C19.channel_not_closed":
        sig["channels"] = ",".join(sorted(set(c for c in step.get("channels", []) if c != "closed")))
        late = {s.get("chan"): s for s in steps
                if s.get("op") == "app" and s.get("side") == side and s.get("what") == "dc" and s.get("res") == "ok"}
        kinds = set()
        for i, c in enumerate(step.get("channels", [])):
            if c != "closed":
                a = late.get(i)
                kinds.add("no" if a is None else "on_closed_connection" if a.get("pcsig") == "closed"
                          else "after_sctp_closed" if a.get("sctp") == "closed" else "yes")
        sig["late_channel"] = ",".join(sorted(kinds))
    elif clause in ("C19.close_hangs", "C19.close_raised"):
        sig["exc"] = (step.get("exc") or "").split(":")[0]
        sig["inflight"] = inflight
    elif clause == "C19.second_close_not_noop":
        sig["how"] = step.get("res", "changed") if step.get("op") == "close_ret" else "changed"
    return [sig]


def detail_of(res, clause, pos, side):
    sc = res["sc"]
    steps = res["steps"]
    step = steps[pos - 1] if 0 < pos <= len(steps) else None
    return {"side": side, "injection": sc["trig"], "mode": sc["mode"], "closed_side": sc["side"], "cfg": sc["cfg"], "app": sc.get("app"),
            "fired_at": res.get("info", {}).get("fired_at"), "step": step, "source": sc.get("src")}


def compare_with_model(sc, res):
    """Agreement of the real final state of the closed side with the model's terminal state."""
    exp = sc["model"]["expect"]
    side = sc["side"]
    fin = None
    for s in res["steps"]:
        if s.get("op") == "observe" and s.get("side") == side and s.get("final") == 1:
            fin = s
    if fin is None:
        return None
    got = {"sig": fin["sig"], "ice": fin["ice"], "conn": fin["conn"],
           "chan_closed": all(c == "closed" for c in fin["channels"]),
           "track_ok": all(t == "ended" for t in fin["tracks"]),
           "nothing_running": not fin["tasks"] and not fin["threads"]}
    diff = [k for k in exp if k in got and exp[k] != got[k]]
    return diff


# =============================================================================
# the check
# =============================================================================

def tlc_chain(sc, thorough, out):
    """All exhaustive TLC runs, one after the other (never concurrently); fills `out`."""
    try:
        W = 8 if thorough else 4
        live = ["CloseLive", "QuietLive"]
        runs = []
        if thorough:
            runs.append(("exh_all", model_cfg(ALL_SHAPES, BOTH_ROLES, [True, False], ["u1", "u2"]), ["-coverage", "1"], 2400))
            # the application creates a data channel at any time (also after the association died)
            runs.append(("exh_app", model_cfg(["d", "md", "md2"], BOTH_ROLES, [True, False], ["u1"], app=[1]), ["-coverage", "1"], 2400))
            runs.append(("live", model_cfg(["m", "md"], BOTH_ROLES, [True, False], ["u1", "u2"], invariants=[], props=live), [], 2400))
        else:
            runs.append(("exh_alive", model_cfg(["m", "d", "md"], BOTH_ROLES, [False], ["u1", "u2"]), ["-coverage", "1"], 600))
            # the remote side may go away
            runs.append(("exh_peer", model_cfg(["md"], ["offerer"], [True], ["u1"]), ["-coverage", "1"], 900))
            # the application creates a data channel at any time (also after the association died)
            runs.append(("exh_app", model_cfg(["d"], BOTH_ROLES, [True], ["u1", "u2"], app=[1]), ["-coverage", "1"], 900))
            # liveness under weak fairness of every internal step (small: liveness checking is the slow part)
            runs.append(("live", model_cfg(["m"], ["answerer"], [True], ["u1"], invariants=[], props=live), [], 900))
        for name, cfg, args, to in runs:
            res = T.tlc(sc, "PcLife", cfg, workers=W, args=args, timeout=to)
            out[name] = res
            _dbg("tlc", name, res.distinct, "states", round(res.wall, 1), "s")
            if not res.complete or res.violated:
                out["error"] = "design model PcLife failed (%s): %s\n%s" % (name, res.violated, res.out[-2500:])
                return
        if thorough:
            # a classic witness: the invariant must be violated
            res = T.tlc(sc, "PcLife", model_cfg(["d"], ["offerer"], [False], ["u1"], invariants=["WitCloseAtIceConn"], props=[]),
                        workers=2, timeout=300)
            out["witness"] = res
            if "WitCloseAtIceConn" not in res.violated:
                out["error"] = "vacuity: close() during the ICE check is not reachable in the model\n" + res.out[-1500:]
                return
        # every deviation must break the model (one run: the deviation is part of the configuration)
        devs = sorted(DEVIATIONS)
        late = ["ChanOnClosed", "SctpStopGuard", "ReconfigTimerSurvivesStop"]   # need the remote side to leave / application actions
        res = T.tlc(sc, "PcLife", model_cfg(["md"], BOTH_ROLES if thorough else ["answerer"], [False], ["u1", "u2"],
                                            invariants=["DevProbe"], props=[], devsel=[d for d in devs if d not in late]),
                    workers=W, timeout=900)
        res2 = T.tlc(sc, "PcLife", model_cfg(["d", "md"] if thorough else ["d"], BOTH_ROLES, [True], ["u1"],
                                             invariants=["DevProbe"], props=[], devsel=late, app=[1]), workers=W, timeout=900)
        out["devrun"] = res
        out["devrun_late"] = res2
        _dbg("tlc devs", res.distinct, round(res.wall, 1), res2.distinct, round(res2.wall, 1))
        if not res2.complete:
            out["error"] = "deviation run (late channel) of PcLife did not complete\n" + res2.out[-1500:]
            return
        broke = {}
        for x in res.printed("DEVBREAK") + res2.printed("DEVBREAK"):
            broke.setdefault(x[1], set()).add(x[2])
        out["deviations"] = {d: sorted(broke.get(d, ())) for d in devs}
        if not res.complete:
            out["error"] = "deviation run of PcLife did not complete\n" + res.out[-1500:]
            return
        for d in devs:
            if not broke.get(d):
                out["error"] = "deviation %s does not break the model (expected e.g. %s)" % (d, DEVIATIONS[d])
                return
    except Exception as e:  # noqa
        out["error"] = "TLC chain: %r" % (e,)


def run():
    rep = Report("C19")
    thorough = tier() == "thorough"
    r = rng(19)
    t_begin = time.time()
    nworkers = int(os.environ.get("C19_WORKERS", "8"))
    pool = Pool(nworkers)            # forked before any thread exists
    try:
        with T.Scratch() as sc:
            as_is = as_is_deviations(rep)
            # ---- 2a. interruption points from TLC behaviours
            nsim = 1500 if thorough else 240
            sim, behs = T.simulate(sc, "PcLife", model_cfg(ALL_SHAPES, BOTH_ROLES, [True, False], ["u1", "u2"], as_is,
                                                             invariants=[], props=[], view=False, levels=[0, 3, 6, 9, 12, 16, 20], app=[0, 1]),
                                   num=nsim, depth=80, seed=seed(), timeout=900, workers=8)
            if not behs:
                raise T.MachineryError("no simulated behaviours\n" + sim.out[-1500:])
            tlc_points = {}
            for bi, beh in enumerate(behs):
                p = point_from_behaviour(beh, bi)
                if p is not None:
                    tlc_points.setdefault(point_key(p), p)
            tlc_points = list(tlc_points.values())
            _dbg("simulate", len(behs), "behaviours", len(tlc_points), "distinct points", round(sim.wall, 1), "s")
            r.shuffle(tlc_points)
            tlc_points = tlc_points[:(300 if thorough else 36)]
            labels_seen = sorted({(p["trig"].get("label"), p["mode"]) for p in tlc_points})

            # ---- 1. exhaustive TLC runs in the background (TLC only, one at a time)
            chain = {}
            th = threading.Thread(target=tlc_chain, args=(sc, thorough, chain), daemon=True)
            th.start()

            # ---- reference runs (iteration counts per configuration)
            ref_cfgs = SAMPLE_CFGS if thorough else SAMPLE_CFGS[:3]
            ref_scs = [{"id": i + 1, "cfg": cfg, "trig": {"kind": "script", "label": "end", "phase": "enter"}, "mode": "single",
                        "side": "A", "gap_ms": 0, "settle_ms": 20, "src": "reference"} for i, cfg in enumerate(ref_cfgs)]
            ref_res = pool.run(ref_scs)
            refs = []
            ref_dropped = []
            for s in ref_scs:
                res = ref_res[s["id"]]
                if res.get("error"):
                    raise T.MachineryError("reference run failed: %s" % res["error"])
                info = dict(res["info"])
                if "flowing_iter" not in info:
                    if len(refs) < 3:
                        raise T.MachineryError("reference run did not reach media/data flow: %s %s" % (s["cfg"], info))
                    ref_dropped.append(s["cfg"])     # e.g. a configuration hit by a C03 finding: no iteration sweep
                    continue
                info["wall_to_end"] = info.get("wall_s", 1.0)
                refs.append((s["cfg"], info))

            # ---- 2b/3. all scenarios
            rest = (product_points(r, thorough) + iteration_points(r, refs, thorough) + delay_points(r, refs, 300 if thorough else 16)
                    + app_points(r, refs, thorough) + reneg_points(r, thorough))
            r.shuffle(rest)                       # a time cut must not starve one kind of point
            scenarios = list(tlc_points) + rest
            for i, s in enumerate(scenarios):
                s["id"] = 100 + i
            budget = (14 * 60 if thorough else 70) - (time.time() - t_begin)
            _dbg("references done; scenarios", len(scenarios), "budget", round(budget, 1))
            results = pool.run(scenarios, budget=max(20.0, budget))
            _dbg("executions done", len(results), "killed", pool.killed)
            all_res = [ref_res[s["id"]] for s in ref_scs] + [results[s["id"]] for s in scenarios if s["id"] in results]
            skipped = len(scenarios) - len(results)
            harness_errors = [x for x in all_res if x.get("error")]
            if len(harness_errors) > max(3, len(all_res) // 10):
                raise T.MachineryError("%d of %d executions failed in the harness, e.g. %s"
                                       % (len(harness_errors), len(all_res), harness_errors[0]["error"]))
            good = [x for x in all_res if not x.get("error")]

            # ---- 3. TLC judges every recorded execution
            fails, val = judge(sc, good, timeout=1500)
            _dbg("judged", len(good), "traces,", len(fails), "failing", round(val.wall, 1), "s")
            by_id = {x["id"]: x for x in good}
            # failures that are not recorded findings must reproduce in a re-run (up to 3)
            pending = {}
            for tid, fl in fails.items():
                for clause, pos, side in fl:
                    for sig in signatures(by_id[tid], clause, pos, side):
                        if rep._match(sig) is None:
                            pending.setdefault(tid, []).append((clause, pos, side, sig))
            confirmed = {}
            reruns = 0
            if pending:
                rer = []
                groups = {}
                for tid in sorted(pending):
                    for c0, p0, s0, sig0 in pending[tid]:
                        groups.setdefault(json.dumps(sig0, sort_keys=True), []).append(tid)
                ids = []
                cap = 60 if thorough else 14
                rank = 0
                while len(ids) < cap and any(len(g) > rank for g in groups.values()):
                    for g in groups.values():
                        if len(g) > rank and g[rank] not in ids and len(ids) < cap:
                            ids.append(g[rank])
                    rank += 1
                for tid in ids:
                    for j in range(3):
                        s2 = copy.deepcopy(by_id[tid]["sc"])
                        s2["id"] = 100000 + tid * 3 + j
                        s2["rerun_of"] = tid
                        rer.append(s2)
                _dbg("reruns", len(rer))
                rres = pool.run(rer)
                _dbg("reruns done")
                reruns = len(rer)
                rgood = [x for x in rres.values() if not x.get("error")]
                rfails, _ = judge(sc, rgood, timeout=900)
                for x in rgood:
                    tid = x["sc"]["rerun_of"]
                    for clause, pos, side in rfails.get(x["id"], []):
                        for c0, p0, s0, sig0 in pending[tid]:
                            if c0 == clause and s0 == side:
                                confirmed.setdefault((tid, clause, side), []).append(x["id"])
            unconfirmed = 0
            for tid, fl in sorted(fails.items()):
                res = by_id[tid]
                for clause, pos, side in fl:
                    for sig in signatures(res, clause, pos, side):
                        if rep._match(sig) is None and (tid, clause, side) not in confirmed:
                            unconfirmed += 1
                            continue
                        rep.violation(clause, sig, detail_of(res, clause, pos, side),
                                      {"scenario": res["sc"], "steps": res["steps"], "info": res["info"],
                                       "reproduced_in": confirmed.get((tid, clause, side))})

            # ---- 4. binding self-test
            bind = binding_selftest(sc, good)

            # ---- spec -> code agreement
            agree = {"points": 0, "agree": 0, "diffs": {}}
            for s in tlc_points:
                res = results.get(s["id"])
                if res is None or res.get("error"):
                    continue
                d = compare_with_model(s, res)
                if d is None:
                    continue
                agree["points"] += 1
                if not d:
                    agree["agree"] += 1
                for k in d:
                    agree["diffs"][k] = agree["diffs"].get(k, 0) + 1

            _dbg("waiting for the TLC chain")
            th.join()
            _dbg("TLC chain done")
            if chain.get("error"):
                raise T.MachineryError(chain["error"])
            seen_w = set()
            for k in ("exh_all", "exh_app", "exh_alive", "exh_peer"):
                if k in chain:
                    seen_w |= {w[1] for w in chain[k].printed("WITNESS")}
            missing = sorted(set(WITNESSES) - seen_w)
            if missing:
                raise T.MachineryError("vacuity: witnesses never reached in the model: %s" % missing)
            cov = {}
            for k in ("exh_all", "exh_app", "exh_alive", "exh_peer"):
                if k in chain:
                    for a, v in chain[k].action_counts().items():
                        cov[a] = (cov.get(a, (0, 0))[0] + v[0], cov.get(a, (0, 0))[1] + v[1])
            if not cov:
                raise T.MachineryError("no action coverage reported by TLC")
            dead = sorted(a for a, v in cov.items() if v[1] == 0 and a not in ("Init",))
            if dead:
                raise T.MachineryError("coverage: model actions never taken: %s" % dead)
            exh = [chain[k] for k in ("exh_all", "exh_app", "exh_alive", "exh_peer") if k in chain]

        fired = {}
        for x in good:
            f = x["info"].get("fired_at") or "?"
            f = f.split("#")[0].split(":")[0] if f.startswith(("iter", "delay")) else f.split("#")[0]
            fired[f] = fired.get(f, 0) + 1
        rep.coverage = {
            "states": sum(e.distinct for e in exh), "transitions": sum(e.generated for e in exh), "exhaustive": True,
            "model_depth": max(e.depth for e in exh),
            "model_runs": {k: {"distinct": chain[k].distinct, "generated": chain[k].generated, "wall_s": round(chain[k].wall, 1)}
                           for k in ("exh_all", "exh_app", "exh_alive", "exh_peer", "live", "devrun", "devrun_late") if k in chain},
            "liveness_checked": ["CloseLive", "QuietLive"],
            "classic_witness_run": "witness" in chain,
            "witnesses_violated": sorted(seen_w),
            "deviations_break_model": chain.get("deviations"),
            "as_is_deviations": as_is,
            "action_coverage": {k: v[1] for k, v in cov.items()},
            "simulated_behaviours": len(behs), "tlc_interruption_points": len(tlc_points),
            "tlc_point_labels": ["%s/%s" % lm for lm in labels_seen][:60],
            "lockstep_points": agree["points"], "lockstep_agree": agree["agree"], "lockstep_diffs": agree["diffs"],
            "traces_validated_against_impl": len(good),
            "evaluations": len(good) + reruns,
            "distinct_nontrivial": len({json.dumps([x["sc"]["cfg"], x["info"].get("fired_at"), x["sc"]["mode"], x["sc"]["side"]],
                                                   sort_keys=True) for x in good
                                        if x["info"].get("fired_at") not in (None, "fallback", "script:end.enter")}),
            "rule": "one execution = one real pair of peer connections with close() injected at one point; distinct = "
                    "(configuration, point that actually fired, mode, side); non-trivial = the point fired before the end of "
                    "the scripted session (not the fallback close at the end)",
            "trace_events_validated": sum(len(x["steps"]) for x in good),
            "executions_by_source": {k: sum(1 for x in good if x["sc"].get("src") == k)
                                     for k in ("reference", "tlc", "label", "script", "iter", "delay", "app", "reneg")},
            "app_actions": {k: sum(1 for x in good for st in x["steps"] if st.get("op") == "app" and
                                   ("%s/%s/sctp=%s" % (st["what"], "ok" if st["res"] == "ok" else "raised", st.get("sctp"))) == k)
                            for k in sorted({"%s/%s/sctp=%s" % (st["what"], "ok" if st["res"] == "ok" else "raised", st.get("sctp"))
                                             for x in good for st in x["steps"] if st.get("op") == "app"})},
            "injection_points_hit": fired,
            "fallback_injections": sum(1 for x in good if x["info"].get("fallback")),
            "scenarios_skipped_for_time": skipped,
            "harness_errors": len(harness_errors), "workers_killed": pool.killed,
            "failing_traces": len(fails), "reruns": reruns, "unreproduced_failures": unconfirmed,
            "binding_selftest": bind,
            "reference_iterations": [i.get("end_iter") for _, i in refs],
            "reference_configs_not_flowing": ref_dropped,
            "samples": [good[0]["steps"][:12], good[-1]["steps"][:12]],
        }
        rep.assumptions = [
            "the remote side is environment in the model (alive / gone); in the executions it is a second real RTCPeerConnection in the same event loop",
            "asyncio's ready queue is FIFO (the ICE monitor task registers its waiter before anything can close the aioice connection)",
            "a received track is ended when its consumer has seen the end; its 'ended' event is not a late event",
            "tasks are attributed by coroutine code file (aiortc/aioice) and owner object; default-executor threads are excluded",
            "a failure that is not a recorded finding counts only if it reproduces in one of 3 re-runs (real sockets, shared machine)",
            "negotiation calls issued after close() began are not made (C14)",
        ]
        return rep.finish()
    except T.MachineryError as e:
        return rep.finish(machinery_error=e)
    finally:
        pool.close()


def binding_selftest(sc, good):
    """Corrupted copies of recorded traces must be rejected with the expected clause: the
    clause has to appear among the FAIL lines of the corrupted copy and not among those of
    the trace as recorded (so the test also works on a tree where no execution is clean)."""
    def ok_sides(t):
        return {s["side"] for s in t if s["op"] == "close_ret" and s["n"] == 1 and s["res"] == "ok"}

    def final_obs(t):      # the final observation of a side whose close() returned (only those are judged)
        idx = [i for i, s in enumerate(t) if s["op"] == "observe" and s.get("final") == 1 and s["side"] in ok_sides(t)]
        return idx[-1] if idx else None

    def first_ret(t):
        idx = [i for i, s in enumerate(t) if s["op"] == "close_ret" and s["n"] == 1 and s["res"] == "ok"]
        return idx[0] if idx else None

    def later_ret(t):
        idx = [i for i, s in enumerate(t) if s["op"] == "close_ret" and s["n"] >= 2 and s["res"] == "ok"
               and s["side"] in ok_sides(t)]
        return idx[-1] if idx else None

    def set_final(field, value, need=None):
        def fn(t):
            i = final_obs(t)
            if i is None or (need is not None and not t[i].get(need)):
                return False
            t[i][field] = value
        return fn

    def set_ret(value):
        def fn(t):
            i = first_ret(t)
            if i is None or t[i]["res"] != "ok":
                return False
            t[i]["res"] = value
        return fn

    def late_event(t):
        i = first_ret(t)
        if i is None or t[i]["res"] != "ok":
            return False
        t.insert(i + 1, {"op": "event", "side": t[i]["side"], "src": "pc", "name": "connectionstatechange"})

    def second_raises(t):
        i = later_ret(t)
        if i is None:
            return False
        t[i]["res"] = "raised"
    plan = [("state", "C19.state_not_closed", set_final("ice", "completed")),
            ("channel", "C19.channel_not_closed", set_final("channels", ["open"], need="channels")),
            ("track", "C19.track_not_ended", set_final("tracks", ["live"], need="tracks")),
            ("task", "C19.task_left_running", set_final("tasks", ["RTCRtpSender._run_rtcp"])),
            ("thread", "C19.thread_left_running", set_final("threads", ["audio-decoder"])),
            ("hang", "C19.close_hangs", set_ret("timeout")),
            ("raised", "C19.close_raised", set_ret("raised")),
            ("event", "C19.event_after_close", late_event),
            ("second", "C19.second_close_not_noop", second_raises)]
    cands = sorted(good, key=lambda x: (0 if x["sc"].get("src") == "reference" else 1, x["id"]))[:12]
    traces, meta = [], []
    for bi, base in enumerate(cands):
        traces.append({"id": len(traces) + 1, "steps": base["steps"]})
        meta.append((bi, None, None))
        for name, expect, fn in plan:
            t = copy.deepcopy(base["steps"])
            if fn(t) is False:
                continue
            traces.append({"id": len(traces) + 1, "steps": t})
            meta.append((bi, name, expect))
    val, verdicts = T.validate_traces(sc, "TracePcLife", TRACE_CFG, traces, timeout=600)
    if len(verdicts) != len(traces):
        raise T.MachineryError("binding self-test: %d of %d verdicts\n%s" % (len(verdicts), len(traces), val.out[-1500:]))
    fails = {}
    for f in val.printed("FAIL"):
        fails.setdefault(f[1], set()).add((f[2], f[4]))
    base_fails = {}
    for tr, (bi, name, expect) in zip(traces, meta):
        if name is None:
            base_fails[bi] = {c for c, _ in fails.get(tr["id"], ())}
    out = {}
    for tr, (bi, name, expect) in zip(traces, meta):
        if name is None or expect in base_fails[bi] or name in out:
            continue          # this base already fails that clause: the corruption shows nothing
        got = {c for c, _ in fails.get(tr["id"], ())}
        if expect not in got:
            raise T.MachineryError("binding self-test: corrupted trace (%s) not rejected with %s (got %s)"
                                   % (name, expect, sorted(got)))
        out[name] = expect
    if len(out) < 5:
        raise T.MachineryError("binding self-test: only %d corruptions could be tried: %s" % (len(out), sorted(out)))
    return out


def replay(path):
    """Re-execute a saved failing scenario on the current tree (up to 3 times) and re-judge it."""
    obj = json.load(open(path))
    clause = obj["clause"]
    scn = obj["replay"]["scenario"]
    pool = Pool(3)
    try:
        scs = []
        for j in range(3):
            s = copy.deepcopy(scn)
            s["id"] = j + 1
            scs.append(s)
        res = pool.run(scs)
        good = [x for x in res.values() if not x.get("error")]
        if not good:
            print("MACHINERY-ERROR property=C19 replay could not be executed: %s" % [x.get("error") for x in res.values()])
            return 2
        with T.Scratch() as sc:
            fails, _ = judge(sc, good, timeout=600)
    finally:
        pool.close()
    hits = [(tid, c, pos, side) for tid, fl in fails.items() for c, pos, side in fl if c == clause]
    others = sorted({c for fl in fails.values() for c, _, _ in fl if c != clause})
    if not hits:
        print("replay: %s not reproduced in 3 executions on the current tree%s"
              % (clause, (" (other clauses failing: %s)" % others) if others else ""))
        return 0
    tid, c, pos, side = hits[0]
    step = [x for x in good if x["id"] == tid][0]["steps"][pos - 1]
    print("VIOLATION property=C19 replay=%s clause=%s reproduced=%d/3 side=%s step=%s" % (path, clause, len({h[0] for h in hits}), side, step))
    return 1
