"""Regenerates MANIFEST.json from the table below (python -m harness.manifest_gen)."""
import json
import os

VERIF = os.path.dirname(os.path.dirname(os.path.abspath(__file__)))

def discover():
    """Each check module harness/cNN_*.py carries a literal `MANIFEST = dict(...)`/{...}
    (technique, text, note, design_ref[, category]); read it without importing."""
    import ast
    import glob
    res = {}
    for p in sorted(glob.glob(os.path.join(VERIF, "harness", "c[0-9][0-9]_*.py"))):
        pid = "C" + os.path.basename(p)[1:3]
        tree = ast.parse(open(p).read())
        for node in tree.body:
            if isinstance(node, ast.Assign) and any(getattr(t, "id", None) == "MANIFEST" for t in node.targets):
                v = node.value
                if isinstance(v, ast.Call):   # dict(k=v, ...)
                    res[pid] = {kw.arg: ast.literal_eval(kw.value) for kw in v.keywords}
                else:
                    res[pid] = ast.literal_eval(v)
    return res


def ready():
    """Only checks listed in harness/READY (one property id per line) are claimed."""
    try:
        return {l.strip() for l in open(os.path.join(VERIF, "harness", "READY")) if l.strip() and not l.startswith("#")}
    except FileNotFoundError:
        return set()


CHECKS = {k: v for k, v in discover().items() if k in ready()}

NOT_YET = {}

NOT_APPLICABLE = {
    "C09": "SDP text-grammar round trips: TLA+/TLC has no string operations; a model would be a second parser/printer, not a specification (DESIGN.md section 6).",
}


def main():
    props = [json.loads(l)["id"] for l in open(os.path.join(VERIF, "properties.jsonl"))]
    checks = []
    for pid in props:
        if pid in CHECKS:
            c = CHECKS[pid]
            checks.append({
                "property_id": pid,
                "quick_cmd": "./check %s --tier quick" % pid,
                "thorough_cmd": "./check %s --tier thorough" % pid,
                "evidence_file": "/verif/evidence/%s.json" % pid,
                "replay_cmd_template": "./check %s --replay {path}" % pid,
                "engine": "tlc+harness",
                "level_claimed": {"category": c.get("category", "model_checking"), "text": c["text"],
                                  "design_ref": c["design_ref"]},
                "level_note": c["note"],
                "technique": c["technique"],
            })
    na = []
    for pid in props:
        if pid in CHECKS:
            continue
        reason = NOT_APPLICABLE.get(pid) or NOT_YET.get(pid) or \
            "check not built yet in this round (specification and harness in progress; see DESIGN.md section 9 order of work)"
        na.append({"property_id": pid, "reason": reason})
    m = {
        "version": 1,
        "setup_cmd": "./setup.sh",
        "hooks": {
            "guard": "AIORTC_VERIF",
            "enable": "no source hooks: harness-side fakes (virtual-time loop, fake transports, module shims); checks import aiortc from /repo/src",
            "baseline_off_cmd": "cd /repo && /venv/bin/python -m pytest -q -p no:cacheprovider --timeout=900",
            "source_commits": [],
            "add_only": True,
        },
        "engines": [
            {"name": "tlc+harness", "path": "/verif/check", "serves_properties": sorted(CHECKS),
             "kind_free_text": "TLA+ specifications (specs/*.tla) model-checked by TLC; conformance harness in Python replays TLC behaviours into aiortc and validates recorded aiortc executions against the specs with TLC"},
        ],
        "checks": checks,
        "not_applicable": na,
        "notes": "See DESIGN.md. VIOLATION only when a trace recorded from the real code is rejected by a property clause of the observable spec; exit 2 = machinery failure.",
    }
    with open(os.path.join(VERIF, "MANIFEST.json"), "w") as f:
        json.dump(m, f, indent=1)


if __name__ == "__main__":
    main()
