"""Regenerates MANIFEST.json from the table below (python -m harness.manifest_gen)."""
import json
import os

VERIF = os.path.dirname(os.path.dirname(os.path.abspath(__file__)))

CHECKS = {
    "C12": dict(
        technique="TLA+ spec RtpRouter.tla model-checked with TLC; TLC-simulated behaviours replayed into the real RtpRouter; recorded executions validated by TraceRouter.tla (TLC trace validation)",
        text="Exhaustive TLC check of the routing design (all register/unregister/packet histories of a small universe) plus conformance of the real RtpRouter to the spec's routing rules in both directions: every recorded routing decision is judged by the TLA+ rule operators.",
        note="Trusted: TLC, the harness' packet construction, REMB media SSRC 0 unregistered. Conformance is sampled (simulated + seeded random histories), the design check is exhaustive within the stated constants.",
        design_ref="5/C12"),
}

NOT_YET = {}

NOT_APPLICABLE = {
    "C09": "SDP text-grammar round trips: TLA+/TLC has no string operations; a model would be a second parser/printer, not a specification (DESIGN.md section 6).",
}


def main():
    props = [json.loads(l)["id"] for l in open(os.path.join(VERIF, "properties.jsonl"))]
    checks = []
    for pid in props:
        if pid in CHECKS:
            c = CHECKS[pid]
            checks.append({
                "property_id": pid,
                "quick_cmd": "./check %s --tier quick" % pid,
                "thorough_cmd": "./check %s --tier thorough" % pid,
                "evidence_file": "/verif/evidence/%s.json" % pid,
                "replay_cmd_template": "./check %s --replay {path}" % pid,
                "engine": "tlc+harness",
                "level_claimed": {"category": c.get("category", "model_checking"), "text": c["text"],
                                  "design_ref": c["design_ref"]},
                "level_note": c["note"],
                "technique": c["technique"],
            })
    na = []
    for pid in props:
        if pid in CHECKS:
            continue
        reason = NOT_APPLICABLE.get(pid) or NOT_YET.get(pid) or \
            "check not built yet in this round (specification and harness in progress; see DESIGN.md section 9 order of work)"
        na.append({"property_id": pid, "reason": reason})
    m = {
        "version": 1,
        "setup_cmd": "./setup.sh",
        "hooks": {
            "guard": "AIORTC_VERIF",
            "enable": "no source hooks: harness-side fakes (virtual-time loop, fake transports, module shims); checks import aiortc from /repo/src",
            "baseline_off_cmd": "cd /repo && /venv/bin/python -m pytest -q -p no:cacheprovider --timeout=900",
            "source_commits": [],
            "add_only": True,
        },
        "engines": [
            {"name": "tlc+harness", "path": "/verif/check", "serves_properties": sorted(CHECKS),
             "kind_free_text": "TLA+ specifications (specs/*.tla) model-checked by TLC; conformance harness in Python replays TLC behaviours into aiortc and validates recorded aiortc executions against the specs with TLC"},
        ],
        "checks": checks,
        "not_applicable": na,
        "notes": "See DESIGN.md. VIOLATION only when a trace recorded from the real code is rejected by a property clause of the observable spec; exit 2 = machinery failure.",
    }
    with open(os.path.join(VERIF, "MANIFEST.json"), "w") as f:
        json.dump(m, f, indent=1)


if __name__ == "__main__":
    main()
