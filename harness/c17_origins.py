"""C17 - behaviour does not depend on sequence-number origins, even across wraparound.  See harness/sctp_check.py (shared SCTP / data-channel check)."""
MANIFEST = dict(
    technique='TLA+ serial-number specification Serial.tla model-checked with TLC (exhaustive for small moduli), the same lemmas in SerialApa.tla discharged symbolically by Apalache for the real moduli 2^16 and 2^32 (all operand triples), both bound to utils.uint16_*/uint32_* by call traces; every SCTP schedule is executed under small origins and under TSN / stream-sequence / reconfig-sequence origins next to the wrap points and TraceDataChannel.tla (TLC) requires the origin-free specification to accept all of them with identical observable events; RTP side: jitter-buffer and media-loop schedules and receiver-statistics histories executed under small origins and origins next to 2^16 / 2^32, equal observable results required (TLC origin groups)',
    text='Origin independence is decided as trace equivalence: the same op list (implementation-relative schedule) is run with small origins and with origins within a few units of 2^32 / 2^16; TLC requires every run to satisfy all data-channel clauses and the observable event sequence to be identical (clause origin_divergence). Serial arithmetic lemmas (antisymmetry, consistency with addition below half the space) are model-checked exhaustively for modulus 2^8 by TLC and proved for all operands at the real moduli 2^16 / 2^32 by Apalache (SMT, length 0); the real functions are validated on boundary-biased pairs and on the counter-examples the solver gives to the witness invariants.',
    note='Trusted: TLC, and Apalache 0.58 with Z3 for the serial lemmas at the real moduli; the in-memory network and virtual-time loop of harness/sctp_env.py standing in for DTLS/UDP; the event recorder. The design-level result is exhaustive only within the stated constants and the in-flight bound; conformance of the code is sampled (lock-step replays of TLC behaviours, seeded random programs and fault schedules, saved regression schedules).',
    design_ref='5/C17')

from . import sctp_check  # noqa: E402


def run():
    return sctp_check.run('C17')


def replay(path):
    return sctp_check.replay('C17', path)
