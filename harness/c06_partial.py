"""C06 - partially reliable channels drop only whole messages and never disturb others.  See harness/sctp_check.py (shared SCTP / data-channel check)."""
MANIFEST = dict(
    technique='TLA+ model SctpAssoc.tla (PR-SCTP: abandon, advanced peer ack point, FORWARD-TSN, receiver skip/prune) model-checked with TLC incl. deviation constants; lock-step replay; executions with mixed reliable / partially reliable channels validated by TraceDataChannel.tla with TLC',
    text='TLC checks on mixed reliable + partially reliable configurations that abandoned messages never produce partial, duplicated or reordered deliveries, never damage reliable channels, never block the association and that the receiver catches up; each of five seeded model defects (the defects repaired in the code) is found by TLC; the real code is bound by lock-step agreement and by recovery probes sent after the network healed, judged by the TLA+ clauses pr_* / reliable_* / blocked / no_recovery.',
    note='Trusted: TLC; the in-memory network and virtual-time loop of harness/sctp_env.py standing in for DTLS/UDP; the event recorder. The design-level result is exhaustive only within the stated constants and the in-flight bound; conformance of the code is sampled (lock-step replays of TLC behaviours, seeded random programs and fault schedules, saved regression schedules).',
    design_ref='5/C06')

from . import sctp_check  # noqa: E402


def run():
    return sctp_check.run('C06')


def replay(path):
    return sctp_check.replay('C06', path)
