"""TLC runner, TLA+ value parser, simulation-file parser and batched trace validation.

Everything that talks to the TLA+ tools lives here.  TLC always runs in a private
scratch directory (mkdtemp outside /repo and /verif), under a timeout, in its own
process group which is killed on exit.
"""
import json
import os
import re
import shutil
import signal
import subprocess
import tempfile
import time

VERIF = os.path.dirname(os.path.dirname(os.path.abspath(__file__)))
SPECS = os.path.join(VERIF, "specs")
TLA_CP = "/opt/veriftools/tla/tla2tools.jar:/opt/veriftools/tla/CommunityModules-deps.jar"


class MachineryError(Exception):
    """The verification machinery itself failed (exit code 2)."""


# --------------------------------------------------------------------------- values


class _P:
    def __init__(self, s):
        self.s = s
        self.i = 0

    def ws(self):
        s = self.s
        n = len(s)
        while self.i < n and s[self.i] in " \t\r\n":
            self.i += 1

    def peek(self, t):
        self.ws()
        return self.s.startswith(t, self.i)

    def eat(self, t):
        self.ws()
        if not self.s.startswith(t, self.i):
            raise ValueError("expected %r at %d: %r" % (t, self.i, self.s[self.i:self.i + 40]))
        self.i += len(t)

    def value(self):
        self.ws()
        s = self.s
        c = s[self.i]
        if c == '"':
            j = self.i + 1
            out = []
            while s[j] != '"':
                if s[j] == "\\":
                    j += 1
                out.append(s[j])
                j += 1
            self.i = j + 1
            return "".join(out)
        if c == "<" and s.startswith("<<", self.i):
            self.i += 2
            items = []
            if self.peek(">>"):
                self.eat(">>")
                return items
            while True:
                items.append(self.value())
                if self.peek(","):
                    self.eat(",")
                else:
                    self.eat(">>")
                    return items
        if c == "{":
            self.i += 1
            items = []
            if self.peek("}"):
                self.eat("}")
                return TlaSet(items)
            while True:
                items.append(self.value())
                if self.peek(","):
                    self.eat(",")
                else:
                    self.eat("}")
                    return TlaSet(items)
        if c == "[":
            self.i += 1
            rec = {}
            if self.peek("]"):
                self.eat("]")
                return rec
            while True:
                self.ws()
                m = re.compile(r"[A-Za-z_][A-Za-z0-9_]*").match(s, self.i)
                key = m.group(0)
                self.i = m.end()
                self.eat("|->")
                rec[key] = self.value()
                if self.peek(","):
                    self.eat(",")
                else:
                    self.eat("]")
                    return rec
        if c == "(":
            # function: (k :> v @@ k :> v)
            self.i += 1
            fn = {}
            while True:
                k = self.value()
                self.eat(":>")
                v = self.value()
                fn[_hashable(k)] = v
                if self.peek("@@"):
                    self.eat("@@")
                else:
                    self.eat(")")
                    return fn
        m = re.compile(r"-?\d+").match(s, self.i)
        if m:
            self.i = m.end()
            if s.startswith("..", self.i):
                self.i += 2
                m2 = re.compile(r"-?\d+").match(s, self.i)
                self.i = m2.end()
                return TlaSet(list(range(int(m.group(0)), int(m2.group(0)) + 1)))
            return int(m.group(0))
        m = re.compile(r"[A-Za-z_][A-Za-z0-9_]*").match(s, self.i)
        if m:
            self.i = m.end()
            w = m.group(0)
            if w == "TRUE":
                return True
            if w == "FALSE":
                return False
            return w  # model value
        raise ValueError("cannot parse at %d: %r" % (self.i, s[self.i:self.i + 40]))


def _hashable(v):
    if isinstance(v, list):
        return tuple(_hashable(x) for x in v)
    if isinstance(v, dict):
        return tuple(sorted((k, _hashable(x)) for k, x in v.items()))
    if isinstance(v, TlaSet):
        return frozenset(_hashable(x) for x in v)
    return v


class TlaSet(list):
    """A TLA+ set (kept as a list in TLC's print order)."""


def parse_value(text):
    p = _P(text)
    v = p.value()
    p.ws()
    if p.i != len(p.s):
        raise ValueError("trailing text: %r" % p.s[p.i:p.i + 40])
    return v


def to_tla(v):
    """Python value -> TLA+ expression text."""
    if isinstance(v, bool):
        return "TRUE" if v else "FALSE"
    if isinstance(v, int):
        return str(v)
    if isinstance(v, str):
        return '"' + v.replace("\\", "\\\\").replace('"', '\\"') + '"'
    if isinstance(v, (set, frozenset, TlaSet)):
        return "{" + ", ".join(to_tla(x) for x in v) + "}"
    if isinstance(v, (list, tuple)):
        return "<<" + ", ".join(to_tla(x) for x in v) + ">>"
    if isinstance(v, dict):
        return "[" + ", ".join("%s |-> %s" % (k, to_tla(x)) for k, x in v.items()) + "]"
    raise TypeError(v)


_STATE_RE = re.compile(r"^\\\* <(\w+)[^>]*>\s*\nSTATE_(\d+) ==\s*\n(.*?)(?=\n\n)", re.S | re.M)


def parse_behaviour_file(path):
    """Parse one file written by `tlc -simulate file=...` -> [(action, {var: value})]."""
    text = open(path).read()
    out = []
    for m in _STATE_RE.finditer(text):
        action = m.group(1)
        body = m.group(3)
        state = {}
        # conjuncts start with "/\ name = "
        parts = re.split(r"^/\\ (\w+) = ", body, flags=re.M)
        # parts: ['', name, val, name, val ...]
        for k in range(1, len(parts), 2):
            state[parts[k]] = parse_value(parts[k + 1].strip())
        out.append((action, state))
    return out


# --------------------------------------------------------------------------- running


class Scratch:
    """A scratch directory with copies of the spec files (removed on exit)."""

    def __init__(self, prefix="verif_tlc_"):
        self.dir = tempfile.mkdtemp(prefix=prefix)

    def __enter__(self):
        for f in os.listdir(SPECS):
            if f.endswith(".tla"):
                shutil.copy(os.path.join(SPECS, f), self.dir)
        return self

    def __exit__(self, *a):
        shutil.rmtree(self.dir, ignore_errors=True)

    def write(self, name, text):
        p = os.path.join(self.dir, name)
        with open(p, "w") as f:
            f.write(text)
        return p


def _run(cmd, cwd, timeout, env=None):
    e = dict(os.environ)
    if env:
        e.update(env)
    t0 = time.time()
    p = subprocess.Popen(cmd, cwd=cwd, stdout=subprocess.PIPE, stderr=subprocess.STDOUT,
                         env=e, start_new_session=True, text=True)
    try:
        out, _ = p.communicate(timeout=timeout)
        timed_out = False
    except subprocess.TimeoutExpired:
        try:
            os.killpg(p.pid, signal.SIGKILL)
        except ProcessLookupError:
            pass
        out, _ = p.communicate()
        timed_out = True
    return p.returncode, out, time.time() - t0, timed_out


class TlcResult:
    def __init__(self, rc, out, wall, timed_out):
        self.rc = rc
        self.out = out
        self.wall = wall
        self.timed_out = timed_out
        m = re.search(r"(\d+) states generated, (\d+) distinct states found, (\d+) states left", out)
        self.generated = int(m.group(1)) if m else 0
        self.distinct = int(m.group(2)) if m else 0
        self.left = int(m.group(3)) if m else -1
        m = re.search(r"The depth of the complete state graph search is (\d+)", out)
        self.depth = int(m.group(1)) if m else 0
        m = re.search(r"The number of states generated: (\d+)", out)
        if m and not self.generated:
            self.generated = int(m.group(1))
        self.violated = re.findall(r"Invariant (\w+) is violated", out)
        self.violated += re.findall(r"Action property (\w+) is violated", out)
        if "Temporal properties were violated" in out:
            self.violated.append("<temporal>")
        if re.search(r"Deadlock reached", out):
            self.violated.append("<deadlock>")
        self.error = bool(re.search(r"Error: (?!Invariant|Action property|Temporal|Deadlock)", out)) and not self.violated
        self.complete = "Model checking completed. No error has been found." in out
        self.coverage = {}

    def printed(self, tag):
        """Values printed with PrintT(<<tag, ...>>), parsed."""
        res = []
        for m in re.finditer(r'^<<"%s", .*?>>$' % re.escape(tag), self.out, re.M):
            try:
                res.append(parse_value(m.group(0)))
            except ValueError:
                pass
        return res

    def action_counts(self):
        """Per-action distinct/total counts from `-coverage`."""
        res = {}
        for m in re.finditer(r"^<(\w+) line \d+, col \d+ to line \d+, col \d+ of module (\w+)(?: \((\d+)[\d ]*\))?>: (\d+):(\d+)",
                             self.out, re.M):
            # disjuncts of Next without a name of their own carry a location suffix: key "Next@<line>"
            key = m.group(1) if m.group(3) is None else "%s@%s" % (m.group(1), m.group(3))
            res[key] = (int(m.group(4)), int(m.group(5)))
        return res


def tlc(scratch, module, cfg_text, workers=16, args=(), timeout=600, java_opts=(), env=None):
    """Run TLC on `module`.tla in `scratch` with the given cfg text."""
    cfg = scratch.write(module + "_run.cfg", cfg_text)
    meta = os.path.join(scratch.dir, "meta_" + module + str(time.time_ns()))
    # (TLC creates an empty tlc-<n> directory in java.io.tmpdir per run: keep it inside the scratch)
    cmd = ["java", "-XX:+UseParallelGC", "-Xmx8g", "-Djava.io.tmpdir=" + scratch.dir] + list(java_opts) + ["-cp", TLA_CP, "tlc2.TLC",
           "-workers", str(workers), "-metadir", meta, "-noGenerateSpecTE", "-config", cfg] + list(args) + [module + ".tla"]
    rc, out, wall, to = _run(cmd, scratch.dir, timeout, env)
    shutil.rmtree(meta, ignore_errors=True)
    return TlcResult(rc, out, wall, to)


def simulate(scratch, module, cfg_text, num, depth, seed, timeout=600, workers=8):
    """tlc -simulate; returns (TlcResult, [behaviour]) with behaviour = [(action, state)].

    `num` is the total number of behaviours wanted (TLC's num is per worker)."""
    d = os.path.join(scratch.dir, "sim_%d" % time.time_ns())
    os.makedirs(d)
    workers = max(1, min(workers, num))
    per = (num + workers - 1) // workers
    res = tlc(scratch, module, cfg_text, workers=workers,
              args=["-simulate", "file=%s/tr,num=%d" % (d, per), "-depth", str(depth), "-seed", str(seed)],
              timeout=timeout)
    behs = []
    for f in sorted(os.listdir(d)):
        try:
            b = parse_behaviour_file(os.path.join(d, f))
        except Exception as e:  # a truncated file from a killed run
            continue
        if b:
            behs.append(b)
    shutil.rmtree(d, ignore_errors=True)
    return res, behs


def validate_traces(scratch, module, cfg_text, traces, timeout=900, consts=""):
    """Batched trace validation.

    `traces` is a list of JSON-able trace objects; they are written as NDJSON, the
    trace module reads them through IOEnv.TRACE_FILE, runs every trace to its end and
    prints one line <<"RESULT", tid, verdict, position>> per trace.  Returns
    (TlcResult, {tid: (verdict, pos)}).
    """
    path = os.path.join(scratch.dir, "traces_%d.ndjson" % time.time_ns())
    with open(path, "w") as f:
        for t in traces:
            f.write(json.dumps(t, separators=(",", ":")) + "\n")
    res = tlc(scratch, module, cfg_text, workers=1, timeout=timeout,
              env={"TRACE_FILE": path})
    verdicts = {}
    for v in res.printed("RESULT"):
        verdicts[v[1]] = (v[2], v[3])
    os.unlink(path)
    return res, verdicts
