"""C04 - DTLS connects only to the fingerprinted peer; both sides derive matching keys.

Spec: specs/Dtls.tla (design + policy operators), specs/TraceDtls.tla (verdict function).

quick / thorough:
  1. TLC checks Dtls.tla exhaustively: every fingerprint list up to length 2 (quick) / 3
     (thorough) over 4 algorithms x good/bad x 3 letter cases, every pair of non-empty SRTP
     profile preference lists, both role assignments, handshake completed / cut, a few
     traffic steps with and without tampering; invariants + 8 witness invariants that must
     be violated + action coverage.
  2. spec -> code: `tlc -simulate` behaviours (random configuration drawn by the model's
     Configure action, then Start/Finish/Send/Transit/Close) are executed on REAL
     RTCDtlsTransport pairs (real OpenSSL handshake, real libsrtp) joined by an in-memory
     ICE pair owned by the harness; the model's expected outcome (`act.res`) is compared
     with the code (agreement measure).
  3. code -> spec: the executions of 2. plus enumerated configurations (all single
     fingerprints, all lists up to length 2/3, the profile x role matrix) and seeded random
     configurations with longer lists are recorded as JSON traces and judged by
     TraceDtls.tla with TLC.  Only a clause of TraceDtls on a real execution gives VIOLATION.
  4. Binding self-test: recorded traces corrupted in one field must be rejected.
"""
MANIFEST = dict(
    technique="TLA+ spec Dtls.tla model-checked with TLC (all fingerprint lists up to length 3 x SRTP profile preference lists x roles x tampering); TLC-simulated behaviours and enumerated/random configurations executed on real RTCDtlsTransport pairs (OpenSSL handshake + libsrtp over an in-memory ICE pair); recorded executions judged by TraceDtls.tla (TLC trace validation)",
    text="The fingerprint policy of the property (at least one supported hash, every supported one matches case-insensitively, else failed and nothing delivered) is a TLA+ operator; TLC proves the design exhaustively for small constants and then judges thousands of recorded executions of the real transports: states reached, what each registered receiver got for every RTP/RTCP/data packet sent, with bit flips injected in transit.",
    note="Trusted: TLC, OpenSSL/libsrtp as used by the library, the harness' in-memory ICE pair and packet construction. SRTP profile lists are set through the transport's _srtp_profiles attribute (as the repository's own tests do). Payloads stay below 1200 bytes (one datagram). Conformance is exhaustive over fingerprint lists up to length 2 (quick) / 3 (thorough) on one side and sampled beyond.",
    design_ref="5/C04")

import asyncio  # noqa: E402
import concurrent.futures as cf  # noqa: E402
import copy  # noqa: E402
import hashlib  # noqa: E402
import itertools  # noqa: E402
import json  # noqa: E402
import os  # noqa: E402
import random  # noqa: E402
import struct  # noqa: E402
import time  # noqa: E402

from . import common  # noqa: F401,E402  (sets sys.path for aiortc)
from .common import Report, rng, seed, tier  # noqa: E402
from . import tlc as T  # noqa: E402

SIDES = ("a", "b")
ALGS = ("sha256", "sha384", "sha512", "unsupported")
CASES = ("lower", "upper", "mixed")
KINDS = ("rtp", "rtcp", "data")
LIB_ALG = {"sha256": "sha-256", "sha384": "sha-384", "sha512": "sha-512"}
# names used for "unsupported"; any of them that the library under test declares as
# supported is skipped (the supported set of the property stays sha-256/384/512)
UNSUPPORTED_NAMES = ("sha-1", "md5", "sha-224", "x-unknown")
START_TIMEOUT = 120.0


def peer(s):
    return "b" if s == "a" else "a"


# --------------------------------------------------------------------------- TLC configs

def _consts(profiles, **kw):
    d = dict(fa="FpOne", fb="FpOne", pp="ProfOnePair", hs="{TRUE}", sim="FALSE", ms=0, mt=0, ca=9)
    d.update(kw)
    d["profiles"] = "{" + ", ".join('"%s"' % p for p in profiles) + "}"
    return """CONSTANTS
 Profiles = %(profiles)s
 FpListsA <- %(fa)s
 FpListsB <- %(fb)s
 ProfPairs <- %(pp)s
 HsChoices = %(hs)s
 SimMode = %(sim)s
 MaxSend = %(ms)d
 MaxTamper = %(mt)d
 CloseAfter = %(ca)d
""" % d


INVARIANTS = ["TypeOK", "PolicyFormsAgree", "ConnectedOnlyIfPolicy", "DeliveredSentIntact",
              "NothingUnlessConnected", "MirrorKeys", "DiscardOnlyIfTamperedOrNotConnected"]
WITNESSES = ["WitnessNeverBothConnected", "WitnessNothingDelivered", "WitnessNoTamperDiscard",
             "WitnessNoMixedListFails", "WitnessNoUnsupportedIgnored", "WitnessNoUnsupportedOnlyFails",
             "WitnessNoDeliveryToHalfOpen", "WitnessNoProfileMismatchFails",
             "WitnessNoUpperNameConnects", "WitnessNoUpperNameBadFails"]


def exh_cfg(profiles, **kw):
    return ("SPECIFICATION Spec\n" + _consts(profiles, **kw) + "VIEW View\n"
            + "".join("INVARIANT %s\n" % i for i in INVARIANTS) + "CHECK_DEADLOCK FALSE\n")


def witness_cfg(profiles):
    """The quick traffic configuration plus witness collection: the invariant WitnessCollect
    records every witness state in a TLC register, POSTCONDITION WitnessPost demands all 8
    (run with one worker: registers are per worker)."""
    c = exh_cfg(profiles, fa="FpRep", fb="FpRep2", pp="ProfRepPairs", hs="{TRUE, FALSE}", ms=2, mt=1, ca=1)
    return c.replace("SPECIFICATION Spec\n", "INIT WInit\nNEXT Next\n").replace(
        "CHECK_DEADLOCK", "INVARIANT WitnessCollect\nPOSTCONDITION WitnessPost\nCHECK_DEADLOCK")


def sim_cfg(profiles):
    return ("SPECIFICATION Spec\n"
            + _consts(profiles, hs="{TRUE, FALSE}", sim="TRUE", ms=6, mt=3, ca=5) + "CHECK_DEADLOCK FALSE\n")


def trace_cfg(profiles):
    return "SPECIFICATION TraceSpec\n" + _consts(profiles) + "CHECK_DEADLOCK FALSE\n"


def tlc_own(module, cfg, **kw):
    """TLC in a scratch directory of its own (safe to call from several threads)."""
    with T.Scratch() as sc:
        return T.tlc(sc, module, cfg, **kw)


def simulate_own(module, cfg, **kw):
    with T.Scratch() as sc:
        return T.simulate(sc, module, cfg, **kw)


def validate_own(cfg, traces, timeout=1200):
    slim = [{"id": t["id"], "cfg": t["cfg"], "steps": t["steps"],
             "env": {"kind": str((t.get("env") or {}).get("kind") or "none")}} for t in traces]
    with T.Scratch() as sc:
        return T.validate_traces(sc, "TraceDtls", cfg, slim, timeout=timeout)


# --------------------------------------------------------------------------- in-memory ICE

class Link:
    """Two datagram queues owned by the harness.

    auto mode (handshake): datagrams pass at once, optionally the link is cut after
    `cut_after` datagrams, optionally the final handshake flight of one side (the datagram
    that carries ChangeCipherSpec) is held back.  Datagrams emitted while `cur` is set
    belong to application packet `cur` and are captured; the driver releases them (altered
    or not) with transit().  hold mode: anything else that is emitted is kept aside."""

    def __init__(self):
        self.q = {"a": asyncio.Queue(), "b": asyncio.Queue()}
        self.progress = 0
        self.mode = "auto"
        self.count = 0
        self.cut_after = None
        self.closed = False
        self.cur = None
        self.captured = {}
        self.stray = 0
        self.hold_ccs_from = None
        self.held = []

    def close(self):
        if not self.closed:
            self.closed = True
            for s in SIDES:
                self.q[s].put_nowait(None)

    def release_held(self, to):
        self.hold_ccs_from = None
        for d in self.held:
            if not self.closed:
                self.q[to].put_nowait(d)
        self.held = []


def has_ccs(datagram):
    """Does the datagram contain a DTLS ChangeCipherSpec record (type 20)?"""
    i = 0
    while i + 13 <= len(datagram):
        if datagram[i] == 20:
            return True
        i += 13 + struct.unpack("!H", datagram[i + 11:i + 13])[0]
    return False


class Ice:
    def __init__(self, link, me, role):
        self.link = link
        self.me = me
        self.role = role

    async def stop(self):
        self.link.close()

    async def _recv(self):
        L = self.link
        if L.closed and L.q[self.me].empty():
            raise ConnectionError
        d = await L.q[self.me].get()
        L.progress += 1
        if d is None:
            L.q[self.me].put_nowait(None)
            raise ConnectionError
        return d

    async def _send(self, data):
        L = self.link
        L.progress += 1
        if L.closed:
            raise ConnectionError
        data = bytes(data)
        if L.cur is not None:
            L.captured.setdefault(L.cur, []).append(data)
            return
        if L.mode == "hold":
            L.stray += 1
            return
        if L.hold_ccs_from == self.me and has_ccs(data):
            L.held.append(data)
            return
        if L.cut_after is not None and L.count >= L.cut_after:
            L.close()
            raise ConnectionError
        L.count += 1
        L.q[peer(self.me)].put_nowait(data)


async def quiesce(link):
    """Run the loop until nothing moves any more (no wall clock involved)."""
    idle = 0
    for _ in range(200000):
        p = link.progress
        await asyncio.sleep(0)
        if link.progress == p:
            idle += 1
            if idle >= 8:
                return
        else:
            idle = 0
    raise T.MachineryError("C04 driver: no quiescence")


# --------------------------------------------------------------------------- payloads

def canon(b):
    b = bytes(b)
    if len(b) <= 24:
        return "%d:%s" % (len(b), b.hex())
    return "%d:#%s" % (len(b), hashlib.sha256(b).hexdigest()[:24])


def raw_rtp(pt, marker, seq, ts, ssrc, payload):
    return struct.pack("!BBHLL", 0x80, (marker << 7) | pt, seq, ts, ssrc) + payload


def raw_sr(ssrc, ntp, rtp_ts, pc, oc):
    return struct.pack("!BBHLQLLL", 0x80, 200, 6, ssrc, ntp, rtp_ts, pc, oc)


def raw_rr(ssrc, r):
    lost = r[2] & 0xFFFFFF
    return struct.pack("!BBHL", 0x81, 201, 7, ssrc) + struct.pack("!LB", r[0], r[1]) \
        + struct.pack("!L", lost)[1:] + struct.pack("!LLLL", r[3], r[4], r[5], r[6])


class Recorder:
    """The registered receivers of one side; logs what the transport hands over."""

    def __init__(self, side, steps, link):
        self.side = side
        self.steps = steps
        self.link = link
        self.transport = None
        self._ssrc = 0  # RtpSender protocol

    def _log(self, kind, data):
        self.link.progress += 1
        self.steps.append({"op": "recv", "side": self.side, "kind": kind, "data": data,
                           "st": self.transport.state})

    async def _handle_data(self, data):
        self._log("data", canon(data))

    def _handle_disconnect(self):
        pass

    async def _handle_rtp_packet(self, packet, arrival_time_ms=0):
        extra = b""
        if getattr(packet, "csrc", None) or getattr(packet, "padding_size", 0):
            extra = b"!csrc/padding"
        self._log("rtp", canon(raw_rtp(packet.payload_type, packet.marker, packet.sequence_number,
                                       packet.timestamp, packet.ssrc, bytes(packet.payload)) + extra))

    async def _handle_rtcp_packet(self, packet):
        name = type(packet).__name__
        try:
            if name == "RtcpSrPacket" and not packet.reports:
                si = packet.sender_info
                raw = raw_sr(packet.ssrc, si.ntp_timestamp, si.rtp_timestamp, si.packet_count, si.octet_count)
            elif name == "RtcpRrPacket" and len(packet.reports) == 1:
                r = packet.reports[0]
                raw = raw_rr(packet.ssrc, (r.ssrc, r.fraction_lost, r.packets_lost, r.highest_sequence,
                                           r.jitter, r.lsr, r.dlsr))
            else:
                raw = bytes(packet)
        except Exception as e:  # an object we cannot project is logged as such
            raw = ("unprojectable %s %s" % (name, type(e).__name__)).encode()
        self._log("rtcp", canon(raw))


# --------------------------------------------------------------------------- fingerprints

_CERTS = []


def _cert_pool(n=4):
    from aiortc.rtcdtlstransport import RTCCertificate
    from cryptography.hazmat.primitives.serialization import Encoding
    while len(_CERTS) < n:
        c = RTCCertificate.generateCertificate()
        der = c._cert.public_bytes(Encoding.DER)
        _CERTS.append((c, der))
    return _CERTS


def _digest(der, name):
    h = {"sha-256": "sha256", "sha-384": "sha384", "sha-512": "sha512", "sha-1": "sha1", "md5": "md5",
         "sha-224": "sha224"}.get(name, "sha256")
    x = hashlib.new(h, der).hexdigest().upper()
    return ":".join(x[i:i + 2] for i in range(0, len(x), 2))


def _recase(value, case, r):
    if case == "lower":
        return value.lower()
    if case == "upper":
        return value.upper()
    out = [(c.lower() if r.random() < 0.5 else c.upper()) for c in value]
    letters = [i for i, c in enumerate(out) if c.isalpha()]
    if len(letters) >= 2:  # make sure both cases occur
        out[letters[0]] = out[letters[0]].lower()
        out[letters[1]] = out[letters[1]].upper()
    return "".join(out)


def _corrupt(value, r):
    pos = [i for i, c in enumerate(value) if c != ":"]
    i = r.choice(pos)
    old = value[i].upper()
    new = r.choice([c for c in "0123456789ABCDEF" if c != old])
    return value[:i] + new + value[i + 1:]


def materialise(fps, peer_der, r):
    """Abstract fingerprint list -> RTCDtlsParameters for the peer certificate `peer_der`."""
    import aiortc.rtcdtlstransport as M
    known = {k.lower() for k in getattr(M, "X509_DIGEST_ALGORITHMS", {})}
    unsup = [n for n in UNSUPPORTED_NAMES if n not in known] or ["x-unknown"]
    out = []
    for f in fps:
        name = LIB_ALG[f["alg"]] if f["alg"] in LIB_ALG else r.choice(unsup)
        v = _digest(peer_der, name)
        if not f["good"]:
            v = _corrupt(v, r)
        out.append(M.RTCDtlsFingerprint(algorithm=_recase(name, f.get("ncase", "lower"), r),
                                        value=_recase(v, f["case"], r)))
    return M.RTCDtlsParameters(fingerprints=out)


def library_profiles():
    import aiortc.rtcdtlstransport as M
    return {p.openssl_profile.decode(): p for p in M.SRTP_PROFILES}


# --------------------------------------------------------------------------- one execution

async def execute(job):
    """Run one job on a real RTCDtlsTransport pair; returns the trace."""
    import aiortc.rtcdtlstransport as M
    from aiortc.rtcrtpparameters import (RTCRtpCodecParameters, RTCRtpDecodingParameters,
                                         RTCRtpReceiveParameters, RTCRtpSendParameters)
    cfg, env = job["cfg"], job["env"]
    r = random.Random(env["seed"])
    steps = []
    link = Link()
    server = "a" if cfg["role"]["a"] == "server" else "b"
    if env.get("role_mode", "auto") == "auto":
        ice_role = {server: "controlling", peer(server): "controlled"}
    else:
        flip = r.random() < 0.5
        ice_role = {"a": "controlling" if flip else "controlled", "b": "controlled" if flip else "controlling"}
    pool = _cert_pool()
    ia, ib = r.sample(range(len(pool)), 2)
    cert = {"a": pool[ia], "b": pool[ib]}
    profs = library_profiles()
    tr, rec, ssrc, pt, seq, tx_ssrc = {}, {}, {}, {}, {}, {}
    for s in SIDES:
        t = M.RTCDtlsTransport(Ice(link, s, ice_role[s]), [cert[s][0]])
        if env.get("role_mode", "auto") != "auto":
            t._set_role(cfg["role"][s])
        t._srtp_profiles = [profs[p] for p in cfg["profs"][s]]
        rc = Recorder(s, steps, link)
        rc.transport = t
        ssrc[s] = r.randrange(1, 1 << 32)          # SSRC this side receives on
        tx_ssrc[s] = r.randrange(1, 1 << 32)       # SSRC of this side's sender object
        rc._ssrc = tx_ssrc[s]
        pt[s] = r.randrange(96, 128)
        seq[s] = r.randrange(0, 1 << 16)
        t._register_data_receiver(rc)
        t._register_rtp_receiver(rc, RTCRtpReceiveParameters(
            codecs=[RTCRtpCodecParameters(mimeType="video/VP8", clockRate=90000, payloadType=pt[s])],
            encodings=[RTCRtpDecodingParameters(ssrc=ssrc[s], payloadType=pt[s])]))
        t._register_rtp_sender(rc, RTCRtpSendParameters())

        def on_state(s=s, t=t):
            link.progress += 1
            steps.append({"op": "state", "side": s, "st": t.state})
        t.on("statechange", on_state)
        tr[s], rec[s] = t, rc
    params = {s: materialise(cfg["fps"][s], cert[peer(s)][1], r) for s in SIDES}

    def make_payload(f, kind, size=None):
        to = peer(f)
        if kind == "data":
            n = r.choice([1, 2, 16, r.randrange(1, 64), r.randrange(1, 1201)])
            n = size if size else n
            raw = bytes(r.getrandbits(8) for _ in range(n))
            return raw, canon(raw)
        if kind == "rtp":
            n = r.choice([0, 1, 20, r.randrange(0, 200), r.randrange(0, 1101)])
            seq[f] = (seq[f] + r.randrange(1, 4)) & 0xFFFF
            raw = raw_rtp(pt[to], r.randrange(2), seq[f], r.getrandbits(32), ssrc[to],
                          bytes(r.getrandbits(8) for _ in range(n)))
            return raw, canon(raw)
        if r.random() < 0.5:   # SR about the stream the peer receives -> its receiver
            raw = raw_sr(ssrc[to], r.getrandbits(64), r.getrandbits(32), r.getrandbits(32), r.getrandbits(32))
        else:                  # RR about the peer's sender -> its sender
            raw = raw_rr(r.randrange(1, 1 << 32), (tx_ssrc[to], r.randrange(256), r.randrange(1 << 23),
                                                    r.getrandbits(32), r.getrandbits(32), r.getrandbits(32),
                                                    r.getrandbits(32)))
        return raw, canon(raw)

    async def do_send(pid, f, kind, opt=False, size=None):
        raw, c = make_payload(f, kind, size)
        link.cur = pid
        link.captured[pid] = []
        ok, exc = True, None
        try:
            if kind == "data":
                await tr[f]._send_data(raw)
            else:
                await tr[f]._send_rtp(raw)
        except Exception as e:
            ok, exc = False, type(e).__name__
        finally:
            link.cur = None
        st = {"op": "send", "id": pid, "from": f, "kind": kind, "data": c, "ok": ok, "opt": opt,
              "dgrams": len(link.captured[pid])}
        if exc:
            st["exc"] = exc
        steps.append(st)

    def min_record_length(t):
        try:
            name = t._ssl.get_cipher_name() or ""
        except Exception:
            name = ""
        return 24 if "GCM" in name else 16 if "CHACHA20" in name else 48

    def do_transit(pid, f, tam, kind=None, bit=None):
        dg = link.captured.pop(pid, [])
        st = {"op": "transit", "id": pid, "tam": bool(tam)}
        if tam and dg:
            d = bytearray(dg[0])
            rbit = r.randrange(len(d) * 8)
            bit = rbit if bit is None or bit >= len(d) * 8 else bit
            d[bit >> 3] ^= 1 << (bit & 7)
            dg[0] = bytes(d)
            st["bit"] = bit
            # where the flip landed (input class, used for finding signatures only)
            if kind != "data":
                st["loc"] = "srtp"
            elif (bit >> 3) in (11, 12) and ((d[11] << 8) | d[12]) < min_record_length(tr[f]):
                st["loc"] = "dtls_record_too_short"
            else:
                st["loc"] = "dtls_header" if (bit >> 3) < 13 else "dtls_body"
        steps.append(st)
        if not link.closed:
            for d in dg:
                link.q[peer(f)].put_nowait(d)

    # ---- handshake
    if env["kind"] == "cut":
        link.cut_after = env["cut"]
    reorder = env["kind"] == "reorder_early"
    if reorder:
        link.hold_ccs_from = server

    async def start_side(s):
        try:
            await tr[s].start(params[s])
        except Exception as e:
            steps.append({"op": "note", "what": "start_raised", "side": s, "exc": type(e).__name__})
        if reorder and s == server:
            # the server is done first; its first data message overtakes its final flight
            if tr[s].state == "connected":
                await do_send(env["early_id"], s, "data", opt=True)
                do_transit(env["early_id"], s, False, "data")
            link.release_held(peer(s))

    try:
        await asyncio.wait_for(asyncio.gather(start_side("a"), start_side("b")), START_TIMEOUT)
    except asyncio.TimeoutError:
        steps.append({"op": "note", "what": "start_timeout"})
        link.release_held(peer(server))
    await quiesce(link)

    def has_keys(t):
        return getattr(t, "_rx_srtp", None) is not None or getattr(t, "_tx_srtp", None) is not None
    steps.append({"op": "settled", "st": {s: tr[s].state for s in SIDES},
                  "keys": {s: has_keys(tr[s]) for s in SIDES}})
    obs = {"selected": None}
    try:
        sel = {tr[s]._ssl.get_selected_srtp_profile() for s in SIDES}
        obs["selected"] = sorted(x.decode() for x in sel if x)
    except Exception:
        pass

    # RTP sequence origins.  SRTP cannot convey the rollover counter: a receiver that has not
    # authenticated a single packet of a stream before the sender's sequence number wraps can
    # never authenticate the later ones (RFC 3711 3.3.1) - that is no defect of the library.
    # So the origin is placed such that the wrap (still exercised in half of the jobs) comes
    # after the first packet of the direction that the driver will not alter.
    tam_of = {op["id"]: op.get("tam", False) for op in job["ops"] if op["op"] == "transit"}
    for s_ in SIDES:
        flags = [tam_of.get(op["id"], False) for op in job["ops"]
                 if op["op"] == "send" and op["from"] == s_ and op["kind"] == "rtp"]
        first_good = flags.index(False) if False in flags else len(flags)
        top = 65535 - 3 * (first_good + 1)
        seq[s_] = r.randrange(max(0, top - 40), top + 1) if r.random() < 0.5 else r.randrange(0, top + 1)

    # ---- traffic, one driver step at a time
    link.mode = "hold"
    sender_of = {}
    for op in job["ops"]:
        k = op["op"]
        if k == "send":
            sender_of[op["id"]] = (op["from"], op["kind"])
            await do_send(op["id"], op["from"], op["kind"], size=op.get("size"))
        elif k == "transit":
            if op["id"] in sender_of:
                f, kind = sender_of.pop(op["id"])
                do_transit(op["id"], f, op.get("tam", False), kind, op.get("bit"))
                await quiesce(link)
                steps.append({"op": "quiet"})
        elif k == "close":
            steps.append({"op": "close", "side": op["side"]})
            try:
                await tr[op["side"]].stop()
            except Exception as e:
                steps.append({"op": "note", "what": "stop_raised", "exc": type(e).__name__})
            await quiesce(link)
        else:
            raise T.MachineryError("C04 driver: unknown op %r" % (op,))
    for pid in sorted(sender_of):     # whatever is still in flight arrives unaltered
        do_transit(pid, sender_of[pid][0], False, sender_of[pid][1])
        await quiesce(link)
    steps.append({"op": "end"})

    # ---- cleanup (not part of the trace)
    n = len(steps)
    for s in SIDES:
        try:
            await tr[s].stop()
        except Exception:
            pass
    link.close()
    for _ in range(10):
        await asyncio.sleep(0)
    del steps[n:]
    return {"id": job["id"], "src": job["src"], "env": env, "cfg": cfg, "steps": steps, "obs": obs,
            "ops": job["ops"], "expect": job.get("expect")}


async def _run_chunk(jobs):
    out = []
    for j in jobs:
        out.append(await execute(j))
    return out


def run_chunk(jobs):
    import logging
    logging.getLogger("aiortc").setLevel(logging.ERROR)
    t0 = time.time()
    res = asyncio.run(_run_chunk(jobs))
    return res, time.time() - t0


def _warm(i):
    import aiortc.rtcdtlstransport  # noqa: F401
    _cert_pool()
    return os.getpid()


def make_pool(nproc):
    """Process pool forked before any TLC thread exists."""
    import multiprocessing as mp
    ex = cf.ProcessPoolExecutor(max_workers=nproc, mp_context=mp.get_context("fork"))
    list(ex.map(_warm, range(nproc * 2)))
    return ex


def run_jobs(jobs, pool=None):
    """Execute jobs (in the process pool if given); returns (traces in job order, seconds spent in workers)."""
    if not jobs:
        return [], 0.0
    chunks = [jobs[i:i + 40] for i in range(0, len(jobs), 40)]
    traces, cpu = [], 0.0
    for res, dt in (pool.map(run_chunk, chunks) if pool is not None else map(run_chunk, chunks)):
        traces += res
        cpu += dt
    return traces, cpu


# --------------------------------------------------------------------------- job sources

def policy_ok(fps):
    """Only used to steer sampling (which configurations get traffic); never a verdict."""
    sup = [f for f in fps if f["alg"] != "unsupported"]
    return bool(sup) and all(f["good"] for f in sup)


def mk_env(r, cfg, kind=None):
    if not cfg["hs"]:
        return {"kind": "cut", "cut": r.randrange(0, 3), "role_mode": r.choice(["auto", "explicit"]),
                "seed": r.getrandbits(48)}
    return {"kind": kind or "plain", "role_mode": r.choice(["auto", "explicit"]), "seed": r.getrandbits(48),
            "early_id": 900}


def jobs_from_behaviour(beh, r):
    """A TLC behaviour -> (cfg, driver ops, model expectations)."""
    cfg = None
    ops, expect = [], {"finish": {}, "transit": {}}
    tam = {}
    for action, state in beh[1:]:
        a = state["act"]
        if a["op"] == "configure":
            cfg = state["cfg"]
        elif a["op"] == "finish":
            expect["finish"][a["side"]] = a["res"]
        elif a["op"] == "send":
            tam[a["id"]] = a["tam"]
            ops.append({"op": "send", "id": a["id"], "from": a["from"], "kind": a["kind"]})
        elif a["op"] == "transit":
            ops.append({"op": "transit", "id": a["id"], "tam": a["tam"]})
            expect["transit"][str(a["id"])] = a["res"]
        elif a["op"] == "close":
            ops.append({"op": "close", "side": a["side"]})
    if cfg is None:
        cfg = beh[0][1]["cfg"]
    if not cfg["fps"]["a"]:
        return None
    cfg = json.loads(json.dumps(cfg))
    return cfg, ops, expect


def traffic_script(r, cfg, nsend, allow_close=True):
    """Random driver ops: sends from either side (also from sides that will not be
    connected - those calls must simply fail), FIFO transit per direction, tampering."""
    ops, pid = [], 0
    inflight = {"a": [], "b": []}   # by sender
    closed = set()
    for _ in range(nsend):
        f = r.choice(SIDES)
        pid += 1
        ops.append({"op": "send", "id": pid, "from": f, "kind": r.choice(KINDS)})
        inflight[f].append(pid)
        while r.random() < 0.6 and (inflight["a"] or inflight["b"]):
            g = r.choice([s for s in SIDES if inflight[s]])
            ops.append({"op": "transit", "id": inflight[g].pop(0), "tam": r.random() < 0.3})
        if allow_close and not closed and r.random() < 0.04:
            s = r.choice(SIDES)
            closed.add(s)
            ops.append({"op": "close", "side": s})
    for g in SIDES:
        for p in inflight[g]:
            ops.append({"op": "transit", "id": p, "tam": r.random() < 0.3})
    return ops


def all_fp(universe="full"):
    """Fingerprint entries: full = Fp (72), lite = FpLite (40), diag = FpDiag (24) of Dtls.tla."""
    out = [{"alg": a, "good": g, "case": c, "ncase": n}
           for a in ALGS for g in (True, False) for c in CASES for n in CASES]
    if universe == "diag":
        out = [f for f in out if f["ncase"] == f["case"]]
    elif universe == "lite":
        out = [f for f in out if f["ncase"] == f["case"] or f["case"] == "lower"]
    return out


def fp_lists(k, universe="full"):
    return [list(x) for x in itertools.product(all_fp(universe), repeat=k)]


def with_ncase(fps):
    return [dict(f, ncase=f.get("ncase", "lower")) for f in fps]


def prof_lists(profiles):
    out = []
    for m in range(1, len(profiles) + 1):
        out += [list(p) for p in itertools.permutations(profiles, m)]
    return out


GOOD = [{"alg": "sha256", "good": True, "case": "upper"}]


def enumerated_jobs(r, profiles, thorough):
    """Configurations enumerated by the harness (same sets as the TLC constants)."""
    plists = prof_lists(profiles)
    full = list(profiles)
    jobs = []

    def add(src, fa, fb, pa, pb, role_a, hs=True, nsend=None, kind=None):
        fa, fb = with_ncase(fa), with_ncase(fb)
        cfg = {"role": {"a": role_a, "b": "server" if role_a == "client" else "client"},
               "fps": {"a": fa, "b": fb}, "profs": {"a": pa, "b": pb}, "hs": hs}
        both = hs and policy_ok(fa) and policy_ok(fb) and set(pa) & set(pb)
        n = nsend if nsend is not None else (r.randrange(3, 8) if both else r.randrange(1, 4))
        env = mk_env(r, cfg, kind)
        jobs.append({"src": src, "cfg": cfg, "env": env, "ops": traffic_script(r, cfg, n)})

    b_variants = [GOOD, [{"alg": "sha512", "good": True, "case": "mixed", "ncase": "upper"},
                         {"alg": "unsupported", "good": False, "case": "lower", "ncase": "mixed"}],
                  [{"alg": "sha384", "good": False, "case": "upper", "ncase": "upper"}]]
    # every fingerprint list on side a: quick = lists <= 2 over FpLite (name case = value case,
    # plus every name case with a lower-case value), each length-2 list under one role;
    # thorough = lists <= 2 over the full Fp and lists of length 3 over FpDiag, both roles
    plan = [(1, "full", True), (2, "full", True), (3, "diag", True)] if thorough else \
           [(1, "lite", True), (2, "lite", False)]
    i = 0
    for k, universe, both_roles in plan:
        for j, fa in enumerate(fp_lists(k, universe)):
            for role_a in (("client", "server") if both_roles else (("client", "server")[j % 2],)):
                i += 1
                fb = b_variants[i % 3] if i % 4 == 0 else GOOD
                pa, pb = (full, full[::-1]) if i % 5 else (r.choice(plists), r.choice(plists))
                add("enum-fp", fa, fb, pa, pb, role_a)
    # the same on side b for lists up to length 1 (thorough: 2) over FpLite
    for k in range(1, 3 if thorough else 2):
        for fb in fp_lists(k, "lite"):
            for role_a in ("client", "server"):
                add("enum-fp-b", GOOD, fb, full[::-1], full, role_a)
    # profile x role matrix: every pair of non-empty preference lists, both roles
    for pa in plists:
        for pb in plists:
            for role_a in ("client", "server"):
                add("enum-prof", GOOD, [{"alg": "sha384", "good": True, "case": "lower"}], pa, pb, role_a, nsend=6)
                if thorough:
                    add("enum-prof", [{"alg": "sha512", "good": True, "case": "mixed", "ncase": "mixed"}],
                        [{"alg": "unsupported", "good": True, "case": "upper"}, {"alg": "sha256", "good": True, "case": "lower"}],
                        pa, pb, role_a, nsend=10)
    # handshake cut at every point, reorder probe on accepted and rejected lists
    for role_a in ("client", "server"):
        for cut in (0, 1, 2):
            add("enum-cut", GOOD, GOOD, full, full, role_a, hs=False)
            jobs[-1]["env"]["cut"] = cut
        for fa in (GOOD, [{"alg": "sha256", "good": False, "case": "upper"}],
                   [{"alg": "unsupported", "good": True, "case": "upper"}],
                   [{"alg": "sha384", "good": True, "case": "lower"}, {"alg": "sha512", "good": False, "case": "lower"}]):
            for fb in (GOOD, [{"alg": "sha512", "good": False, "case": "mixed"}]):
                add("enum-reorder", fa, fb, full, full[::-1], role_a, kind="reorder_early", nsend=3)
    # one altered datagram whose DTLS record length drops below nonce + tag (finding F22)
    for role_a in ("client", "server"):
        for bit in (99, 100):
            for victim in SIDES:
                add("enum-shortrec", GOOD, GOOD, full, full[::-1], role_a, nsend=0)
                v, o = victim, peer(victim)
                jobs[-1]["ops"] = [
                    {"op": "send", "id": 1, "from": o, "kind": "data", "size": 3}, {"op": "transit", "id": 1, "tam": False},
                    {"op": "send", "id": 2, "from": o, "kind": "data", "size": 2}, {"op": "transit", "id": 2, "tam": True, "bit": bit},
                    {"op": "send", "id": 3, "from": o, "kind": "rtp"}, {"op": "transit", "id": 3, "tam": False},
                    {"op": "send", "id": 4, "from": v, "kind": "rtcp"}, {"op": "transit", "id": 4, "tam": False},
                    {"op": "send", "id": 5, "from": o, "kind": "data", "size": 5}, {"op": "transit", "id": 5, "tam": False},
                    {"op": "send", "id": 6, "from": v, "kind": "data", "size": 4}, {"op": "transit", "id": 6, "tam": False}]
    return jobs


def random_jobs(r, profiles, count):
    """Seeded random configurations with longer lists (up to 6), mixed cases."""
    plists = prof_lists(profiles)
    fps = all_fp()
    jobs = []
    for i in range(count):
        def rand_list():
            k = r.choice([1, 1, 2, 2, 3, 4, 5, 6])
            style = r.random()
            if style < 0.45:    # accepted: good supported ones and arbitrary unsupported ones
                pool = [f for f in fps if f["good"] or f["alg"] == "unsupported"]
            elif style < 0.6:   # unsupported only
                pool = [f for f in fps if f["alg"] == "unsupported"]
            else:
                pool = fps
            return [dict(r.choice(pool)) for _ in range(k)]
        pa = r.choice(plists)
        pb = r.choice(plists) if r.random() < 0.3 else r.choice([p for p in plists if set(p) & set(pa)])
        cfg = {"role": r.choice([{"a": "client", "b": "server"}, {"a": "server", "b": "client"}]),
               "fps": {"a": rand_list(), "b": rand_list()}, "profs": {"a": pa, "b": pb},
               "hs": r.random() < 0.93}
        kind = "reorder_early" if cfg["hs"] and r.random() < 0.06 else None
        both = cfg["hs"] and policy_ok(cfg["fps"]["a"]) and policy_ok(cfg["fps"]["b"]) and set(pa) & set(pb)
        n = r.randrange(4, 25) if both else r.randrange(1, 5)
        jobs.append({"src": "random", "cfg": cfg, "env": mk_env(r, cfg, kind), "ops": traffic_script(r, cfg, n)})
    return jobs


# --------------------------------------------------------------------------- judging

def signature_of(trace, verdict, pos):
    step = trace["steps"][pos - 1] if 1 <= pos <= len(trace["steps"]) else {}
    sig = {"env": trace["env"]["kind"], "op": step.get("op")}
    if step.get("op") == "recv":
        sig["kind"] = step.get("kind")
        sig["recv_state"] = step.get("st")
    before = trace["steps"][:max(0, pos - 1)]
    if step.get("op") == "send":
        sig["kind"] = step.get("kind")
    elif step.get("op") in ("quiet", "end"):
        kinds = {s["id"]: s["kind"] for s in before if s["op"] == "send"}
        last = next((s for s in reversed(before) if s["op"] == "transit"), None)
        if last is not None:
            sig["kind"] = kinds.get(last["id"])
    # input class: an earlier datagram altered in a way that is known to matter
    locs = sorted({s["loc"] for s in before if s["op"] == "transit" and s.get("tam")
                   and s.get("loc") == "dtls_record_too_short"})
    if locs:
        sig["after_tamper"] = locs[0]
    return sig, step


def lockstep(trace):
    """Agreement between the model's expectation and the code (not a verdict)."""
    exp = trace.get("expect")
    if not exp:
        return 0, 0
    steps = trace["steps"]
    total = miss = 0
    settled = next((s for s in steps if s["op"] == "settled"), None)
    for side, res in exp["finish"].items():
        total += 1
        if not settled or settled["st"].get(side) != res:
            miss += 1
    for i, s in enumerate(steps):
        if s["op"] == "transit" and str(s["id"]) in exp["transit"]:
            total += 1
            got = 0
            for t in steps[i + 1:]:
                if t["op"] == "recv":
                    got += 1
                elif t["op"] == "quiet":
                    break
            if (got > 0) != (exp["transit"][str(s["id"])] == "delivered"):
                miss += 1
    return total, miss


def corrupt_for_binding(traces):
    """Corrupted copies of recorded traces with the clause each must be rejected with."""
    out = []
    t = next((t for t in traces if any(s["op"] == "recv" for s in t["steps"])), None)
    if t is not None:
        bad = copy.deepcopy(t)
        s = next(s for s in bad["steps"] if s["op"] == "recv")
        s["data"] = s["data"] + "00"
        out.append((bad, "C04.spurious_delivery"))
        bad = copy.deepcopy(t)
        i = next(i for i, s in enumerate(bad["steps"]) if s["op"] == "recv")
        del bad["steps"][i]
        out.append((bad, "C04.not_delivered_intact"))
        bad = copy.deepcopy(t)
        s = next(s for s in bad["steps"] if s["op"] == "settled")
        s["st"]["a"] = "failed"
        out.append((bad, "C04.connect_policy"))
    t = next((t for t in traces if any(s["op"] == "transit" and s["tam"] for s in t["steps"])
              and all(v == "connected" for v in next(s for s in t["steps"] if s["op"] == "settled")["st"].values())
              and not any(s["op"] == "close" for s in t["steps"])), None)
    if t is not None:
        bad = copy.deepcopy(t)
        i = next(i for i, s in enumerate(bad["steps"]) if s["op"] == "transit" and s["tam"])
        pid = bad["steps"][i]["id"]
        snd = next(s for s in bad["steps"] if s["op"] == "send" and s["id"] == pid)
        bad["steps"].insert(i + 1, {"op": "recv", "side": peer(snd["from"]), "kind": snd["kind"],
                                    "data": snd["data"], "st": "connected"})
        out.append((bad, "C04.tampered_accepted"))
        bad = copy.deepcopy(t)       # a connected side gives up after the altered packet although nobody closed
        i = next(i for i, s in enumerate(bad["steps"]) if s["op"] == "transit" and s["tam"])
        snd = next(s for s in bad["steps"] if s["op"] == "send" and s["id"] == bad["steps"][i]["id"])
        bad["steps"].insert(i + 1, {"op": "state", "side": peer(snd["from"]), "st": "closed"})
        out.append((bad, "C04.connected_side_gave_up"))
    t = next((t for t in traces if any(v == "failed" for v in next(s for s in t["steps"] if s["op"] == "settled")["st"].values())
              and t["cfg"]["hs"]), None)
    if t is not None:
        bad = copy.deepcopy(t)
        st = next(s for s in bad["steps"] if s["op"] == "settled")
        side = next(k for k, v in st["st"].items() if v == "failed")
        bad["steps"].insert(len(bad["steps"]) - 1, {"op": "recv", "side": side, "kind": "data", "data": "1:00", "st": "failed"})
        out.append((bad, "C04.delivered_before_connected"))
    for k, (b, _) in enumerate(out):
        b["id"] = BIND_ID + k
    return out


class Stats:
    """Measured numbers accumulated over the waves of executions."""

    def __init__(self):
        self.n = self.events = self.vstates = 0
        self.both = self.one = self.recvs = self.tampered = 0
        self.ls_beh = self.ls_total = self.ls_miss = 0
        self.by_src, self.selected, self.verdicts = {}, {}, {}
        self.cpu = 0.0
        self.samples = {}
        self.ok_traces = []

    def add(self, traces, verdicts):
        for t in traces:
            self.n += 1
            self.events += len(t["steps"])
            st = next(s for s in t["steps"] if s["op"] == "settled")["st"]
            if all(v == "connected" for v in st.values()):
                self.both += 1
            elif sorted(st.values()) == ["connected", "failed"]:
                self.one += 1
            self.recvs += sum(1 for s in t["steps"] if s["op"] == "recv")
            self.tampered += sum(1 for s in t["steps"] if s["op"] == "transit" and s["tam"])
            self.by_src[t["src"]] = self.by_src.get(t["src"], 0) + 1
            for p in (t["obs"].get("selected") or []):
                self.selected[p] = self.selected.get(p, 0) + 1
            v = verdicts[t["id"]][0]
            self.verdicts[v] = self.verdicts.get(v, 0) + 1
            if t.get("expect"):
                a, b = lockstep(t)
                self.ls_beh += 1
                self.ls_total += a
                self.ls_miss += b
            if t["src"] not in self.samples:
                self.samples[t["src"]] = t["steps"][:10]
            if v == "ok" and len(self.ok_traces) < 400:
                self.ok_traces.append(t)


def judge_wave(rep, traces, res_verdicts, stats):
    res, verdicts = res_verdicts
    if res.timed_out or any(t["id"] not in verdicts for t in traces):
        raise T.MachineryError("trace validation incomplete: %d of %d verdicts\n%s"
                               % (len(verdicts), len(traces), res.out[-2000:]))
    stats.vstates += res.distinct
    for t in traces:
        v, pos = verdicts[t["id"]]
        if v.startswith("machinery"):
            raise T.MachineryError("trace %d: %s" % (t["id"], v))
        if v != "ok":
            sig, step = signature_of(t, v, pos)
            rep.violation(v, sig, {"step": step, "position": pos, "source": t["src"], "cfg": t["cfg"],
                                   "env": t["env"]}, t)
    stats.add(traces, verdicts)


# --------------------------------------------------------------------------- run

WAVE = 10000
BIND_ID = 1900000000


def run():
    rep = Report("C04")
    thorough = tier() == "thorough"
    r = rng(4)
    nproc = min(12, os.cpu_count() or 4)
    pool = None
    try:
        profiles = sorted(library_profiles())
        if not profiles:
            raise T.MachineryError("the library reports no SRTP profile")
        tcfg = trace_cfg(profiles)
        timing = {}
        stats = Stats()
        pool = make_pool(nproc)      # forked before the first thread is started
        with cf.ThreadPoolExecutor(max_workers=4) as th:
            # 1. design level: exhaustive TLC + witnesses (threads; each TLC has its own scratch)
            exh_specs = {
                "fingerprints": exh_cfg(profiles, fa="FpUpTo3Diag" if thorough else "FpUpTo2Lite", ms=1, mt=1),
                "profiles_roles": exh_cfg(profiles, fa="FpRep2", fb="FpRep2", pp="ProfAllPairs", hs="{TRUE, FALSE}",
                                          ms=2 if thorough else 1, mt=1, ca=2 if thorough else 1),
                "traffic_witnesses": witness_cfg(profiles),
            }
            if thorough:
                exh_specs["fingerprints_namecase"] = exh_cfg(profiles, fa="FpUpTo2Full", ms=1, mt=1)
                exh_specs["traffic"] = exh_cfg(profiles, fa="FpRep", fb="FpRep2", pp="ProfRepPairs",
                                               hs="{TRUE, FALSE}", ms=3, mt=2, ca=2)
            tmo = 1200 if thorough else 240

            def design_runs():
                # one exhaustive run after the other (never concurrently), bounded by the tier budget
                res = {}
                for k, c in exh_specs.items():
                    res[k] = tlc_own("Dtls", c, workers=1 if k == "traffic_witnesses" else 8,
                                     args=["-coverage", "1"] if k == "traffic_witnesses" else [], timeout=tmo)
                    if not res[k].complete:
                        break
                return res
            f_design = th.submit(design_runs)
            nsim = 8000 if thorough else 500
            f_sim = th.submit(simulate_own, "Dtls", sim_cfg(profiles), num=nsim, depth=26, seed=seed(),
                              timeout=tmo, workers=4)

            # 3a. harness-enumerated and random configurations (run while TLC works)
            jobs = enumerated_jobs(r, profiles, thorough) + random_jobs(r, profiles, 80000 if thorough else 1200)
            for i, j in enumerate(jobs):
                j["id"] = i + 1
            nid = len(jobs)
            pending = None
            t_exec = t_judge = 0.0

            def finish(p):
                nonlocal t_judge
                t1 = time.time()
                judge_wave(rep, p[0], p[1].result(), stats)
                t_judge += time.time() - t1

            bind = []

            def do_wave(wave, last=False):
                nonlocal pending, t_exec, bind
                t1 = time.time()
                traces, cpu = run_jobs(wave, pool)
                t_exec += time.time() - t1
                stats.cpu += cpu
                if pending:
                    finish(pending)
                extra = []
                if last and stats.ok_traces:
                    # 4. binding self-test: corrupted copies of accepted traces ride along
                    bind = corrupt_for_binding(stats.ok_traces)
                    extra = [b for b, _ in bind]
                pending = (traces, th.submit(validate_own, tcfg, traces + extra))

            for i in range(0, len(jobs), WAVE):
                do_wave(jobs[i:i + WAVE])
            del jobs

            # 2. spec -> code: behaviours drawn by TLC
            sim, behs = f_sim.result()
            if not behs:
                raise T.MachineryError("no simulated behaviours\n" + sim.out[-1500:])
            timing["tlc_simulate_wall_s"] = round(sim.wall, 1)
            sjobs = []
            for bi, beh in enumerate(behs):
                x = jobs_from_behaviour(beh, r)
                if x is None:
                    continue
                cfg, ops, expect = x
                kind = "reorder_early" if cfg["hs"] and bi % 16 == 0 else None
                nid += 1
                sjobs.append({"id": nid, "src": "tlc-simulate", "cfg": cfg,
                              "env": mk_env(r, cfg, kind), "ops": ops, "expect": expect})
            del behs
            for i in range(0, len(sjobs), WAVE):
                do_wave(sjobs[i:i + WAVE], last=i + WAVE >= len(sjobs))
            last_verdicts = pending[1].result()[1]
            finish(pending)
            timing["exec_wall_s"] = round(t_exec, 1)
            timing["judge_wait_wall_s"] = round(t_judge, 1)

            exh = f_design.result()
            for k, e in exh.items():
                if e.timed_out:
                    raise T.MachineryError("design model Dtls (%s) exceeded its budget of %d s" % (k, tmo))
                if not e.complete or e.violated:
                    missing = e.printed("WITNESS-MISSING")
                    if missing:
                        raise T.MachineryError("vacuity: witnesses not reached: %s" % [WITNESSES[m[1] - 1] for m in missing])
                    raise T.MachineryError("design model Dtls (%s) failed: %s\n%s" % (k, e.violated, e.out[-1500:]))
            if len(exh) != len(exh_specs) or "INVARIANT WitnessCollect" not in exh_specs["traffic_witnesses"]:
                raise T.MachineryError("design runs incomplete")
            counts = {}
            for e in exh.values():
                for a, (d, g) in e.action_counts().items():
                    a = "Init" if a == "WInit" else a
                    counts[a] = counts.get(a, 0) + g
            never = [a for a in ("Init", "Start", "Finish", "Send", "Transit", "Close") if not counts.get(a)]
            if never:
                raise T.MachineryError("coverage: actions never taken: %s" % never)
            timing["tlc_design_wall_s"] = round(sum(e.wall for e in exh.values()), 1)

        # 4. binding self-test verdicts
        bres = {}
        if not bind:
            bind = corrupt_for_binding(stats.ok_traces)
            last_verdicts = validate_own(tcfg, [b for b, _ in bind], timeout=900)[1] if bind else {}
        if len(bind) < 5 and not rep.violations and not rep.known_hits:
            raise T.MachineryError("binding self-test: could not build all corrupted traces (%d)" % len(bind))
        for b, want in bind:
            got = last_verdicts.get(b["id"], ("?", 0))[0]
            bres[want] = got
            if got != want:
                raise T.MachineryError("binding self-test: corrupted trace judged %r, expected %r" % (got, want))

        rep.coverage = {
            "states": sum(e.distinct for e in exh.values()),
            "transitions": sum(e.generated for e in exh.values()),
            "exhaustive": True,
            "exhaustive_configs": {k: {"states": e.distinct, "transitions": e.generated, "depth": e.depth,
                                       "wall_s": round(e.wall, 1)} for k, e in exh.items()},
            "witnesses_violated": len(WITNESSES),
            "action_coverage": counts,
            "traces_validated_against_impl": stats.n,
            "trace_events_validated": stats.events,
            "trace_validation_states": stats.vstates,
            "traces_by_source": stats.by_src,
            "trace_verdicts": stats.verdicts,
            "executions_both_connected": stats.both,
            "executions_one_side_failed": stats.one,
            "executions_both_failed": stats.n - stats.both - stats.one,
            "receiver_callbacks": stats.recvs,
            "tampered_packets": stats.tampered,
            "negotiated_profiles": stats.selected,
            "lockstep_behaviours": stats.ls_beh, "lockstep_checks": stats.ls_total,
            "lockstep_mismatches": stats.ls_miss,
            "binding_selftest": bres,
            "exec_worker_s": round(stats.cpu, 1),
            "exec_ms_per_config": round(1000.0 * stats.cpu / max(1, stats.n), 2),
            "timing": timing,
            "samples": [stats.samples.get("enum-fp"), stats.samples.get("tlc-simulate")],
        }
        rep.assumptions = [
            "OpenSSL and libsrtp behave as documented; the in-memory ICE pair delivers datagrams in order and loses none unless the driver cuts the link or flips a bit",
            "supported hashes are sha-256/384/512 (property text); 'unsupported' uses names the library does not list (sha-1, md5, sha-224, x-unknown)",
            "SRTP profile lists are injected through RTCDtlsTransport._srtp_profiles; the profile universe is the library's SRTP_PROFILES",
            "a handshake that is cut before the third flight cannot complete on either side; both sides then have to end in failed",
            "payloads fit one datagram (data <= 1200 bytes, RTP payload <= 1100 bytes); RTP payload types 96..127",
            "SRTP session presence is read from the anchored attributes _rx_srtp/_tx_srtp",
            "data delivered while the receiving side is still 'connecting' is only a violation if that side must not connect",
        ]
        return rep.finish()
    except T.MachineryError as e:
        return rep.finish(machinery_error=e)
    finally:
        if pool is not None:
            pool.shutdown(wait=False, cancel_futures=True)


def replay(path):
    """Re-execute the job of a saved failing trace on the current tree and re-judge it."""
    obj = json.load(open(path))
    t = obj["replay"]
    job = {"id": 1, "src": t.get("src", "replay"), "cfg": t["cfg"], "env": t["env"], "ops": t["ops"]}
    (trace,), _ = run_jobs([job])
    profiles = sorted(library_profiles())
    _, v = validate_own(trace_cfg(profiles), [trace], timeout=600)
    verdict, pos = v.get(1, ("machinery", 0))
    if verdict == "ok":
        print("replay: trace accepted on the current tree")
        return 0
    if verdict.startswith("machinery"):
        print("MACHINERY-ERROR property=C04 replay verdict %s" % verdict)
        return 2
    print("VIOLATION property=C04 replay=%s clause=%s step=%s" % (path, verdict, trace["steps"][pos - 1]))
    return 1
