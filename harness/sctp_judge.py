"""Judging SCTP traces with TLC (TraceDataChannel.tla), in parallel batches, and
minimising failing op lists by batched delta debugging with TLC as the only oracle."""
import concurrent.futures as cf
import json
import os

from . import tlc as T

TRACE_CFG = "SPECIFICATION TraceSpec\nCHECK_DEADLOCK FALSE\n"


ALL_FOCUS = ["C01", "C02", "C06", "C13", "C17", "EXC"]


def _taint():
    """Clauses of the open findings of the SCTP cluster (see TraceDataChannel.tla, Taint)."""
    from .common import load_known
    return sorted({k["signature"]["clause"] for k in load_known()
                   if k["status"] == "finding" and k["property"] in ("C01", "C02", "C06", "C13", "C17")
                   and "clause" in k.get("signature", {})})


TAINT = _taint()


def _slim(tr, i):
    d = {"id": i, "pr": bool(tr["pr"]), "events": tr["events"], "focus": tr.get("focus") or ALL_FOCUS}
    if tr.get("ref") is not None:
        d["ref"] = tr["ref"]
    d["taint"] = TAINT
    return d


def _judge_batch(args):
    batch, base = args
    with T.Scratch() as sc:
        res, v = T.validate_traces(sc, "TraceDataChannel", TRACE_CFG, batch, timeout=1800)
    return res.distinct, res.generated, v, (res.out[-1500:] if len(v) != len(batch) else "")


def judge(traces, parallel=8):
    """Returns (verdicts list aligned with traces [(verdict, pos)], tlc_states, tlc_transitions)."""
    slim = [_slim(t, i + 1) for i, t in enumerate(traces)]
    if not slim:
        return [], 0, 0
    nb = max(1, min(parallel, len(slim) // 150 + 1))
    batches = [slim[i::nb] for i in range(nb)]
    out = [None] * len(slim)
    states = trans = 0
    with cf.ThreadPoolExecutor(max_workers=nb) as ex:
        for (d, g, v, err), batch in zip(ex.map(_judge_batch, [(b, 0) for b in batches]), batches):
            if err:
                raise T.MachineryError("trace validation incomplete:\n" + err)
            states += d
            trans += g
            for t in batch:
                out[t["id"] - 1] = tuple(v[t["id"]])
    return out, states, trans


def minimise(ops, clause, origin=(None, None), rounds=40):
    """Batched ddmin: smallest op list (keeping start/heal/quiesce) whose verdict is `clause`."""
    from .sctp_driver import run_ops
    fixed = {"start", "heal", "quiesce"}
    cur = list(ops)

    def verdicts(cands):
        trs = [run_ops([tuple(o) for o in c], origin[0], origin[1]) for c in cands]
        v, _, _ = judge(trs, parallel=4)
        return [x[0] for x in v]

    n = 2
    for _ in range(rounds):
        idx = [i for i, o in enumerate(cur) if o[0] not in fixed]
        if len(idx) < 2:
            break
        n = min(n, len(idx))
        size = (len(idx) + n - 1) // n
        cands = []
        for k in range(0, len(idx), size):
            drop = set(idx[k:k + size])
            cands.append([o for i, o in enumerate(cur) if i not in drop])
        vs = verdicts(cands)
        hit = [c for c, v in zip(cands, vs) if v == clause]
        if hit:
            cur = min(hit, key=len)
            n = max(n - 1, 2)
        else:
            if size == 1:
                break
            n = min(len(idx), n * 2)
    return cur


def save_regress(name, ops, origin, clause, note):
    d = os.path.join(T.VERIF, "regress", "sctp")
    os.makedirs(d, exist_ok=True)
    with open(os.path.join(d, name + ".json"), "w") as f:
        json.dump({"name": name, "ops": ops, "origin": list(origin), "clause_when_found": clause, "note": note}, f, indent=0)


def load_regress():
    d = os.path.join(T.VERIF, "regress", "sctp")
    out = []
    if os.path.isdir(d):
        for fn in sorted(os.listdir(d)):
            if fn.endswith(".json"):
                out.append(json.load(open(os.path.join(d, fn))))
    return out
