"""C18 - RTCP receiver-report statistics.  Specs: specs/RrStats.tla, specs/TraceRrStats.tla.

quick / thorough:
  1. TLC exhaustively checks RrStats.tla at a small modulus (sequence mod 16, timestamp
     mod 64): the folded reference R and the implementation-shaped counters M both equal
     the declarative reference D over the ideal history, every field fits; witness
     invariants must be violated; each `Deviations` element must yield a counter-example.
  2. spec -> code: `tlc -simulate` behaviours of the same spec at the REAL sequence modulus
     are replayed into a real RTCRtpReceiver (packets through _handle_rtp_packet, reports
     through the real _run_rtcp under a virtual clock); model counters vs StreamStatistics
     and model report vs the bytes sent are compared step by step (agreement measure).
  3. code -> spec: seeded random histories at real sizes (16-bit sequence numbers starting
     next to the wrap, several cycles, 32-bit timestamps next to the wrap, relative transit
     (arrival clock - timestamp) next to 0 mod 2^32, loss / duplicates / reordering, arrival
     clock jumps, 1-3 SSRCs) are executed on the real receiver; every
     report the code sends is parsed back from the wire and judged by TraceRrStats.tla.
  4. binding self-test: corrupted copies of recorded traces must be rejected.
"""
MANIFEST = dict(
    technique="TLA+ spec RrStats.tla (declarative RFC 3550 reference over the ideal history, folded reference, counter model of StreamStatistics/_run_rtcp) model-checked with TLC at a small modulus; TLC-simulated behaviours replayed into the real RTCRtpReceiver; receiver reports produced by the real _run_rtcp under a virtual clock parsed back from the wire and judged by TraceRrStats.tla (TLC trace validation)",
    text="Exhaustive TLC check (sequence modulus 16, timestamp modulus 64, all histories up to the stated length with loss, duplicates, reordering within half the space, several cycles, timestamp wrap, reports at all points) that the RFC 3550 counters equal the reference computed from the history and fit their fields; conformance of the real receiver in both directions at real sizes: every packet count and every report block sent by the code is judged by the TLA+ reference operators.",
    note="Trusted: TLC, the harness' mapping of ideal timestamp/arrival offsets to real 32-bit values and to time.time(), RtcpPacket.parse for reading back the sent report. Jitter is compared with tolerance 1 (RFC A.8 gives a float and an integer form) and under both readings of 'previous arrival'; jitter is unspecified after an arrival clock jump >= 2^25 ticks. Conformance is sampled (simulated + seeded random histories), the design check is exhaustive within the stated constants.",
    design_ref="5/C18")

import copy  # noqa: E402
import json  # noqa: E402
import time as _time  # noqa: E402
from concurrent.futures import ThreadPoolExecutor  # noqa: E402

from . import common  # noqa: F401,E402  (sets sys.path for aiortc)
from .common import Report, rng, seed, tier  # noqa: E402
from . import tlc as T  # noqa: E402
from .vloop import VLoop  # noqa: E402

OFF = 1 << 29          # offset added to logged t / a so that they are non-negative
SPAN = 1 << 25         # bound on |ideal timestamp offset| and |folded arrival offset| per trace
BIG = 1 << 25          # arrival clock jumps >= BIG ticks make the jitter unspecified

# --------------------------------------------------------------------------- TLC configs

MC = """---- MODULE %(name)s ----
EXTENDS RrStats
c_LostMin == %(lostmin)s
c_FirstSeqs == %(fs)s
c_Jumps == %(j)s
c_FirstTs == %(ft)s
c_TsSteps == %(ts)s
c_ArrSteps == %(ar)s
c_Dev == %(dev)s
====
"""

CFG = """SPECIFICATION Spec
CONSTANTS
 SeqMod = %(seqmod)d
 TsMod = %(tsmod)d
 LostMin <- c_LostMin
 LostMax = %(lostmax)d
 HighestMax = %(highestmax)d
 JitterMax = %(jittermax)d
 MaxPkts = %(n)d
 MaxReports = %(r)d
 FirstSeqs <- c_FirstSeqs
 Jumps <- c_Jumps
 FirstTs <- c_FirstTs
 TsSteps <- c_TsSteps
 ArrSteps <- c_ArrSteps
 Deviations <- c_Dev
 CheckD = %(checkd)s
%(view)s
CHECK_DEADLOCK FALSE
%(inv)s
"""

SMALL = dict(seqmod=16, tsmod=64, lostmin="-2", lostmax=9, highestmax=255, jittermax=127, checkd="TRUE",
             view="VIEW View", dev="{}")
# sequence dimension: loss, duplicates, reordering up to half the space, several cycles, reports
SEQ_Q = dict(SMALL, fs="{0, 14}", j="{-7, -2, -1, 0, 1, 2, 7}", ft="{62}", ts="{3}", ar="{5}", n=5, r=2)
SEQ_T = dict(SMALL, fs="{0, 14}", j="{-7, -3, -1, 0, 1, 2, 3, 7}", ft="{62}", ts="{3}", ar="{5}", n=6, r=2)
# jitter dimension: timestamp wrap, same-timestamp packets, reordering, arrival steps
JIT_Q = dict(SMALL, fs="{15}", j="{-1, 1}", ft="{60}", ts="{0, 3, 31}", ar="{0, 40}", n=5, r=0)
JIT_T = dict(SMALL, fs="{15}", j="{-1, 1}", ft="{60}", ts="{0, 3, 31, -2}", ar="{0, 4, 40}", n=5, r=0)

INVARIANTS = ["EnvAgrees", "RefFoldAgrees", "ModelReceived", "ModelHighest", "ModelLost", "ModelFraction",
              "ModelJitter", "Fits"]
# each must be violated somewhere (WitnessProbe inside the exhaustive runs + one classic run)
WITNESSES = ["WitnessOneCycle", "WitnessNoTsWrap", "WitnessNoReorder", "WitnessNoClampHi", "WitnessNoClampLo",
             "WitnessNoLoss", "WitnessNoJitter", "WitnessReadings", "WitnessOneReport"]
# deviation -> (configuration, invariant that must fail)
DEVIATIONS = {"NoCycles": ("seq", "ModelHighest"), "NonModularTs": ("jit", "ModelJitter"),
              "NoClamp": ("seq", "ModelLost"), "TransitNotModular": ("jit", "ModelJitter")}

SIM = dict(seqmod=65536, tsmod=1 << 30, lostmin="-8388608", lostmax=8388607, highestmax=2147483647,
           jittermax=2147483647, checkd="FALSE", view="", dev="{}",
           fs="{0, 65535, 65000, 32768, 12345}",
           j="{1, 2, 0, -1, -100, 20000, 32767, -32767}",
           ft="{1073741000, 1073700000, 0, 5000}",
           ts="{0, 3000, -3000, 400000}",
           ar="{0, 2900, -500, 300000}", n=40, r=8, inv="")

TRACE_CFG = """SPECIFICATION TraceSpec
CONSTANTS
 SeqMod = 65536
 TsMod = 1073741824
 LostMin <- c_LostMin
 LostMax = 8388607
 HighestMax = 2147483647
 JitterMax = 2147483647
 MaxPkts = 0
 MaxReports = 0
 FirstSeqs = {}
 Jumps = {}
 FirstTs = {}
 TsSteps = {}
 ArrSteps = {}
 Deviations = {}
 CheckD = FALSE
CHECK_DEADLOCK FALSE
"""

JAVA_OPTS = ["-XX:ParallelGCThreads=4"]
_mc_counter = [0]


def run_model(sc, params, inv=(), **kw):
    """Write a wrapper module (negative numbers / sets are not expressible in a cfg) and run TLC."""
    _mc_counter[0] += 1
    name = "MC_RrStats_%d" % _mc_counter[0]
    d = dict(params, name=name)
    d["inv"] = "\n".join("INVARIANT " + i for i in inv)
    sc.write(name + ".tla", MC % d)
    return name, CFG % d


# --------------------------------------------------------------------------- driver


class _Clock:
    """Replacement for the `time` module inside aiortc.rtcrtpreceiver."""

    def __init__(self):
        self.now = 0.0

    def time(self):
        return self.now

    def __getattr__(self, name):
        return getattr(_time, name)


_CLOCK = _Clock()


class _FakeTransport:
    state = "connected"
    _stats_id = "transport_verif"

    def __init__(self):
        self.sent = []

    def _register_rtp_receiver(self, receiver, parameters):
        pass

    def _unregister_rtp_receiver(self, receiver):
        pass

    async def _send_rtp(self, data):
        self.sent.append(data)

    def _get_stats(self):
        from aiortc.stats import RTCStatsReport
        return RTCStatsReport()


def _noop_decoder(loop, input_q, output_q):
    return None


class Rx:
    """A real RTCRtpReceiver (kind audio: no NACK / REMB machinery) with a fake transport,
    a virtual clock and a frozen event loop; the RTCP timer is fired by the driver."""

    PT = 96
    PT_RTX = 97

    def __init__(self, clockrate, rtx_map=None):
        import asyncio
        import aiortc.rtcrtpreceiver as R
        from aiortc.rtcrtpparameters import (RTCRtpCodecParameters, RTCRtpDecodingParameters,
                                             RTCRtpReceiveParameters, RTCRtpRtxParameters)
        R.time = _CLOCK
        R.decoder_worker = _noop_decoder
        self.R = R
        self.clockrate = clockrate
        self.loop = VLoop()
        asyncio.set_event_loop(self.loop)
        self.transport = _FakeTransport()
        self.rx = R.RTCRtpReceiver("audio", self.transport)
        self.rx._track = R.RemoteStreamTrack(kind="audio")
        self.rx._set_rtcp_ssrc(0x0BADCAFE)
        codec = RTCRtpCodecParameters(mimeType="audio/x-verif", clockRate=clockrate, channels=1,
                                      payloadType=self.PT)
        # (a retransmission stream is a stream of its own for the statistics: its packets arrive on
        #  the RTX SSRC with the RTX payload type and are unwrapped into the media stream afterwards)
        rtxc = RTCRtpCodecParameters(mimeType="audio/rtx", clockRate=clockrate, payloadType=self.PT_RTX,
                                     parameters={"apt": self.PT})
        enc = [RTCRtpDecodingParameters(ssrc=1, payloadType=self.PT)]
        for rtx_ssrc, media_ssrc in sorted((rtx_map or {}).items()):
            enc.append(RTCRtpDecodingParameters(ssrc=media_ssrc, payloadType=self.PT, rtx=RTCRtpRtxParameters(ssrc=rtx_ssrc)))
        self.loop.run(self.rx.receive(RTCRtpReceiveParameters(codecs=[codec, rtxc], encodings=enc)))
        self.failed = False
        self.error = None

    def _task(self):
        t = getattr(self.rx, "_RTCRtpReceiver__rtcp_task", None)
        if t is None:
            raise T.MachineryError("cannot observe the RTCP task of RTCRtpReceiver")
        return t

    def set_arrival(self, ticks):
        """Make int(time.time() * clockrate) equal `ticks`."""
        _CLOCK.now = (ticks + 0.25) / self.clockrate
        if int(_CLOCK.now * self.clockrate) != ticks:
            raise T.MachineryError("clock shim cannot represent arrival tick %d" % ticks)

    def add(self, ssrc, seq, ts, osn=None):
        from aiortc import rtp
        if osn is None:
            pkt = rtp.RtpPacket(payload_type=self.PT, ssrc=ssrc, sequence_number=seq, timestamp=ts, payload=b"")
        else:       # a retransmission: RTX payload type, original sequence number in front of the payload
            pkt = rtp.RtpPacket(payload_type=self.PT_RTX, ssrc=ssrc, sequence_number=seq, timestamp=ts,
                                payload=bytes([(osn >> 8) & 0xFF, osn & 0xFF]) + b"x")
        pkt = rtp.RtpPacket.parse(pkt.serialize())
        self.loop.run(self.rx._handle_rtp_packet(pkt, arrival_time_ms=int(_CLOCK.now * 1000)))

    def stream(self, ssrc):
        d = getattr(self.rx, "_RTCRtpReceiver__remote_streams", None)
        if d is None:
            raise T.MachineryError("cannot observe the per-SSRC statistics of RTCRtpReceiver")
        return d.get(ssrc)

    def sender_report(self, ssrc):
        from aiortc import rtp
        ntp = int((max(_CLOCK.now, 0.0) + 2208988800) * (1 << 32)) & ((1 << 64) - 1)
        sr = rtp.RtcpSrPacket(ssrc=ssrc, sender_info=rtp.RtcpSenderInfo(
            ntp_timestamp=ntp, rtp_timestamp=1234, packet_count=10, octet_count=1000))
        self.loop.run(self.rx._handle_rtcp_packet(rtp.RtcpPacket.parse(bytes(sr))[0]))

    def fire_report(self):
        """Fire the RTCP interval timer of _run_rtcp; returns (sent, failed, [RtcpReceiverInfo])."""
        from aiortc import rtp
        task = self._task()
        if task.done():
            return 0, 0, []           # the task is gone (it failed earlier)
        before = len(self.transport.sent)
        hs = self.loop.timers()
        if not hs:
            raise T.MachineryError("_run_rtcp has no armed timer")
        for h in hs:
            self.loop.fire(h)
        blocks = []
        for data in self.transport.sent[before:]:
            for p in rtp.RtcpPacket.parse(data):
                if isinstance(p, rtp.RtcpRrPacket):
                    blocks.extend(p.reports)
        if task.done() and not task.cancelled() and task.exception() is not None:
            self.failed = True
            self.error = repr(task.exception())
            return 0, 1, []
        return (1 if blocks else 0), 0, blocks

    def close(self):
        import asyncio
        try:
            if self._task().done():
                self.rx._handle_disconnect()      # stop() would wait forever for the dead task
            else:
                self.loop.run(self.rx.stop())
        finally:
            self.loop.close()
            asyncio.set_event_loop(None)


def execute(hist, internals=None):
    """Run a history (ideal terms) on a real receiver; returns the recorded trace.

    hist = {clock, a0, streams: [{ssrc, seq0, tso}], ops: [["add", s, x, t, A] | ["report"] | ["sr", s]]}
    s: stream number 1..k; x: ideal sequence offset (seq = seq0 + x mod 2^16); t: ideal timestamp
    offset (ts = tso + t mod 2^32); A: arrival tick offset (arrival tick = a0 + A, any size).
    """
    clock = hist["clock"]
    a0 = int(hist["a0"])
    streams = hist["streams"]
    rtx_map = {st["ssrc"]: streams[st["rtx_of"] - 1]["ssrc"] for st in streams if st.get("rtx_of")}
    rx = Rx(clock, rtx_map)
    steps = []
    folded = 0
    prev_a = None
    try:
        for op in hist["ops"]:
            if op[0] == "add":
                _, s, x, t, a = op
                a = int(a)
                st = streams[s - 1]
                seq = (st["seq0"] + x) % 65536
                ts = (int(st["tso"]) + t) % (1 << 32)
                big = 0
                if prev_a is not None:
                    if abs(a - prev_a) >= BIG:
                        big = 1
                    else:
                        folded += a - prev_a
                prev_a = a
                if abs(t) >= SPAN or abs(folded) >= SPAN:
                    raise T.MachineryError("history exceeds the span the trace format can carry")
                rx.set_arrival(a0 + a)
                if st.get("rtx_of"):
                    rx.add(st["ssrc"], seq, ts, osn=(streams[st["rtx_of"] - 1]["seq0"] + x) % 65536)
                else:
                    rx.add(st["ssrc"], seq, ts)
                ss = rx.stream(st["ssrc"])
                recv = getattr(ss, "packets_received", -1) if ss is not None else 0
                steps.append({"op": "add", "s": s, "seq": seq, "t": t + OFF, "a": folded + OFF, "big": big,
                              "recv": recv})
                if internals is not None:
                    internals.append(None if ss is None else {
                        "received": getattr(ss, "packets_received", None), "base": getattr(ss, "base_seq", None),
                        "max": getattr(ss, "max_seq", None), "cycles": getattr(ss, "cycles", None),
                        "jq4": getattr(ss, "_jitter_q4", None)})
            elif op[0] == "report":
                sent, failed, blocks = rx.fire_report()
                reps = []
                by_ssrc = {st["ssrc"]: i + 1 for i, st in enumerate(streams)}
                for b in blocks:
                    if b.ssrc not in by_ssrc:
                        raise T.MachineryError("report block for an SSRC that was never fed: %r" % (b,))
                    reps.append({"s": by_ssrc[b.ssrc], "fl": b.fraction_lost, "pl": b.packets_lost,
                                 "hh": b.highest_sequence >> 16, "hl": b.highest_sequence & 0xFFFF,
                                 "jh": b.jitter >> 16, "jl": b.jitter & 0xFFFF})
                ev = {"op": "report", "sent": sent, "failed": failed, "reps": reps}
                if failed:
                    ev["error"] = rx.error
                steps.append(ev)
                if internals is not None:
                    internals.append(None)
            elif op[0] == "sr":
                rx.sender_report(streams[op[1] - 1]["ssrc"])
                steps.append({"op": "sr"})
                if internals is not None:
                    internals.append(None)
            else:
                raise ValueError(op)
    finally:
        rx.close()
    return {"k": len(streams), "skip": [], "steps": steps}


# --------------------------------------------------------------------------- histories

STEP = {8000: 160, 48000: 960, 90000: 3000}


def gen_history(r, klass):
    """Seeded random arrival history at real sizes (ideal terms, see execute)."""
    clock = r.choice([8000, 48000, 90000])
    step = STEP[clock]
    k = 1 if klass in ("longloss", "transit0") else r.choice([1, 1, 2, 3])
    a0 = int(r.choice([1.7e9, 1.7e9, 0.0, 86400 * 365.25 * 30]) * clock) + (1 << 26) + r.randint(0, 10 ** 6)
    streams, sts = [], []
    for i in range(k):
        seq0 = r.choice([65535 - r.randint(0, 50), r.randrange(65536), 0, 32768 - r.randint(0, 3)])
        if klass == "wrapts" or r.random() < 0.35:
            tso = (1 << 32) - r.randint(1, 40) * step - r.randint(0, step)
        else:
            tso = r.choice([0, (1 << 31) - r.randint(0, 20 * step), r.randrange(1 << 32)])
        ssrc = r.choice([0xFFFFFFFF - i, 1 + i, 0x80000000 + i, r.randrange(1 << 32)])
        while ssrc in [s["ssrc"] for s in streams]:
            ssrc = r.randrange(1 << 32)
        if klass == "transit0":
            # relative transit (arrival clock in RTP units - RTP timestamp) mod 2^32 next to 0 / 2^32:
            # the arrival clock origin is moved so that it is within a few hundred units of the
            # timestamp origin modulo 2^32, on either side
            delta = r.choice([-1, 1]) * r.randint(0, 2 * step)
            a0 += (tso + delta - a0) % (1 << 32)
        streams.append({"ssrc": ssrc, "seq0": seq0, "tso": str(tso)})
        sts.append({"hi": None, "t_hi": 0, "tmap": {}, "recent": []})
    dev = r.choice([40, step // 2, step, 2 * step])      # transit0: arrival deviation from the schedule
    ops = []
    a = 0
    n = r.randint(300, 520) if klass == "longloss" else r.randint(5, 120)
    medium = 0
    bigs = 0
    p_report = 0.02 if klass == "longloss" else 0.06
    for _ in range(n):
        s = r.randrange(k)
        st = sts[s]
        # arrival clock
        u = r.random()
        if u < 0.68:
            da = r.randint(0, 2 * step)
        elif u < 0.78:
            da = 0
        elif u < 0.84:
            da = -r.randint(1, step)
        elif u < 0.93:
            da = r.randint(step, 50 * step)
        elif u < 0.97 and medium < 2:
            da = r.choice([1, -1]) * r.randint(1 << 16, 1 << 22)
            medium += 1
        elif klass == "bigjump" and bigs < 2 and len(ops) > 3:
            da = r.choice([1, 1, -1]) * r.randint(BIG, 1 << r.choice([26, 30, 34, 38, 42, 47]))
            if a0 + a + da < (1 << 26):
                da = -da
            bigs += 1
        else:
            da = r.randint(0, step)
        a += da
        # sequence number
        hi = st["hi"]
        if hi is None:
            x = 0
        else:
            u = r.random()
            if klass == "longloss":
                x = hi + (r.randint(25000, 32767) if u < 0.9 else 1)
            elif u < 0.62:
                x = hi + 1
            elif u < 0.74:
                x = hi + r.randint(2, 6)
            elif u < 0.78:
                x = hi + r.randint(7, 32767)
            elif u < 0.86:
                x = r.choice([y for y in st["recent"] if hi - y <= 32767] or [hi])
            elif u < 0.96:
                x = hi - r.randint(1, 8)
            else:
                x = hi - r.randint(9, 32767)
        # timestamp
        if x in st["tmap"]:
            t = st["tmap"][x]
        elif hi is None:
            t = 0
        elif x > hi:
            u = r.random()
            if u < 0.30:
                dt = 0
            elif u < 0.85:
                dt = step
            elif u < 0.93:
                dt = step * r.randint(2, 50)
            elif u < 0.96:
                dt = r.randint(1, 1 << 20)
            elif u < 0.98:
                dt = -r.randint(1, 5 * step)
            elif medium < 3:
                dt = r.randint(1 << 20, 1 << 22)
                medium += 1
            else:
                dt = step
            t = st["t_hi"] + dt
        else:
            t = st["t_hi"] - step * min(hi - x, 40) + r.choice([0, 0, step])
        if abs(t) >= SPAN - 1:
            break
        if klass == "transit0":
            # ordinary network jitter around the nominal schedule: the transit crosses the
            # 0 / 2^32 boundary back and forth
            a = t + r.randint(-dev, dev) if (hi is None or x > hi) else a - da + r.randint(0, step)
        st["tmap"][x] = t
        st["recent"] = (st["recent"] + [x])[-10:]
        if hi is None or x > hi:
            st["hi"] = x
            st["t_hi"] = t
        ops.append(["add", s + 1, x, t, a])
        u = r.random()
        if u < p_report:
            ops.append(["report"])
        elif u < p_report + 0.03:
            ops.append(["sr", s + 1])
    ops.append(["report"])
    return {"clock": clock, "a0": str(a0), "streams": streams, "ops": _fold_guard(ops)}


def _fold_guard(ops):
    """Cut the history before the folded arrival offset would leave the span of the format."""
    folded, prev = 0, None
    out = []
    for op in ops:
        if op[0] == "add":
            a = op[4]
            if prev is not None and abs(a - prev) < BIG:
                folded += a - prev
            prev = a
            if abs(folded) >= SPAN - 1:
                break
        out.append(op)
    if not out or out[-1][0] != "report":
        out.append(["report"])
    return out


def fixed_histories():
    """Deterministic histories that are always run (shapes of defects found earlier)."""
    hs = []
    # two sequence cycles from a start next to the wrap, no loss, one report per cycle
    ops = []
    for i in range(9):
        ops.append(["add", 1, i * 16000, i * 3000, i * 3000])
        if i % 4 == 3:
            ops.append(["report"])
    ops.append(["report"])
    hs.append(("fixed-seqwrap", {"clock": 90000, "a0": str(int(1.7e9 * 90000)),
                                 "streams": [{"ssrc": 0xFFFFFFFE, "seq0": 65530, "tso": "1000"}], "ops": ops}))
    # a 90 kHz stream crossing the 32-bit timestamp wrap, perfectly paced: jitter stays 0
    ops = [["add", 1, i, i * 3000, i * 3000] for i in range(12)] + [["report"]]
    hs.append(("fixed-tswrap", {"clock": 90000, "a0": str(int(1.7e9 * 90000)),
                                "streams": [{"ssrc": 77, "seq0": 100, "tso": str((1 << 32) - 5 * 3000 - 7)}],
                                "ops": ops}))
    # wall clock stepped from 1970 to 2024 (NTP sync) in the middle of a stream
    ops = [["add", 1, i, i * 960, i * 960] for i in range(5)]
    ops += [["add", 1, 5 + i, (5 + i) * 960, (5 + i) * 960 + int(1.7e9 * 48000)] for i in range(5)]
    ops += [["report"], ["add", 1, 10, 9600, 9600 + int(1.7e9 * 48000)], ["report"]]
    hs.append(("fixed-clockstep", {"clock": 48000, "a0": "4800000",
                                   "streams": [{"ssrc": 5, "seq0": 0, "tso": "0"}], "ops": ops}))
    # relative transit (arrival - timestamp) mod 2^32 straddling 0: arrival clock origin 20 units
    # below the timestamp origin, arrivals deviating by up to 40 units from the 20 ms schedule
    devs = [0, -40, 16, -32, 40, -8, 24, -40, 0, 32, -24, 8, -40, 40, -16, 0]
    ops = [["add", 1, i, i * 160, i * 160 + devs[i % 16]] for i in range(40)]
    ops.insert(20, ["report"])
    ops.append(["report"])
    tso = (1 << 32) - 25 * 160
    a0 = 3167 * (1 << 32) + tso - 20
    hs.append(("fixed-transit0", {"clock": 8000, "a0": str(a0),
                                  "streams": [{"ssrc": 99, "seq0": 65520, "tso": str(tso)}], "ops": ops}))
    return hs


def history_from_behaviour(beh):
    """TLC behaviour of RrStats (SIM config) -> (history, [act])."""
    acts = [st["act"] for _, st in beh[1:]]
    first = next((a for a in acts if a["op"] == "add"), None)
    if first is None:
        return None, acts
    x0, t0 = first["x"], first["t"]
    # real timestamp origin: the model's timestamp wrap (2^30) is mapped onto the real one (2^32)
    tso = ((1 << 32) - (1 << 30) + t0) % (1 << 32)
    ops = []
    for a in acts:
        if a["op"] == "add":
            ops.append(["add", 1, a["x"] - x0, a["t"] - t0, a["a"]])
        elif a["op"] == "report":
            ops.append(["report"])
    return {"clock": 90000, "a0": str(int(1.7e9 * 90000) + 12345),
            "streams": [{"ssrc": 0x9E3779B1, "seq0": x0 % 65536, "tso": str(tso)}], "ops": ops}, acts


# --------------------------------------------------------------------------- classification


def classify(hist, trace, clause, pos):
    """Input class of a rejected trace (part of the known-finding signature)."""
    steps = trace["steps"]
    ev = steps[pos - 1] if 0 < pos <= len(steps) else {}
    adds_before = [(i, op) for i, op in enumerate(hist["ops"][:pos]) if op[0] == "add"]   # one step per op
    if clause == "C18.ext_highest":
        ok = bool(ev.get("reps"))
        for b in ev.get("reps", []):
            st = hist["streams"][b["s"] - 1]
            xs = [op[2] for _, op in adds_before if op[1] == b["s"]]
            if not xs:
                return "other"
            ideal = st["seq0"] + max(xs)
            got = b["hh"] * 65536 + b["hl"]
            if got != ideal and not (ideal >= 65536 and got == ideal % 65536):
                ok = False
        return "highest_sequence_without_cycles" if ok else "other"
    if clause == "C18.jitter":
        for b in ev.get("reps", []):
            st = hist["streams"][b["s"] - 1]
            ts = [op[3] for _, op in adds_before if op[1] == b["s"]]
            if ts and (int(st["tso"]) + min(ts)) // (1 << 32) != (int(st["tso"]) + max(ts)) // (1 << 32):
                return "timestamp_wrap_crossed"
        return "other"
    if clause == "C18.fits/serialise_failed":
        if any(s.get("big") == 1 for s in steps[:pos] if s["op"] == "add"):
            return "after_arrival_clock_jump"
        return "other"
    return "other"


def slim(trace):
    """What TLC reads: no strings that are not needed, no big integers."""
    steps = []
    for s in trace["steps"]:
        if s["op"] == "report":
            steps.append({"op": "report", "sent": s["sent"], "failed": s["failed"], "reps": s["reps"]})
        else:
            steps.append(s)
    return {"id": trace["id"], "k": trace["k"], "skip": trace["skip"], "steps": steps}


def judge(sc, rep, items):
    """items: [(trace, hist)].  One TLC pass over all traces.  The trace spec does not stop at
    a failing clause (it stops judging that clause and runs on), so a recorded known finding
    does not hide the other clauses.  Returns ({id: (first verdict, pos)}, TLC states)."""
    val, verdicts = T.validate_traces(sc, "TraceRrStats", TRACE_CFG, [slim(t) for t, _ in items], timeout=1500)
    if len(verdicts) != len(items):
        raise T.MachineryError("trace validation incomplete: %d of %d verdicts\n%s"
                               % (len(verdicts), len(items), val.out[-2500:]))
    more = {}
    for f in val.printed("FAIL"):
        more.setdefault(f[1], []).append((f[2], f[3]))
    for t, h in items:
        v, pos = verdicts[t["id"]]
        if v == "ok":
            continue
        if v.startswith("machinery"):
            raise T.MachineryError("trace %s (%s): %s at %d" % (t["id"], t.get("src"), v, pos))
        for clause, cpos in more.get(t["id"]) or [(v, pos)]:
            cls = classify(h, t, clause, cpos)
            rep.violation(clause, {"class": cls}, {"class": cls, "position": cpos, "step": t["steps"][cpos - 1],
                                                   "source": t.get("src")}, {"history": h, "trace": t})
    return verdicts, val.distinct


# --------------------------------------------------------------------------- run


def run():
    rep = Report("C18")
    thorough = tier() == "thorough"
    r = rng(18)
    phases = {}
    t_ph = [_time.time()]

    def phase(name):
        now = _time.time()
        phases[name] = round(now - t_ph[0], 1)
        t_ph[0] = now
    try:
        with T.Scratch() as sc:
            # 1. design level ------------------------------------------------------
            seqp, jitp = (SEQ_T, JIT_T) if thorough else (SEQ_Q, JIT_Q)
            cfgs = {"seq": seqp, "jit": jitp}
            jobs = []
            for name, p in cfgs.items():
                jobs.append((("exh", name), None) + run_model(sc, p, INVARIANTS + ["WitnessProbe"]))
            # one witness the classic way (a run whose invariant must be violated); the others
            # are observed by WitnessProbe inside the exhaustive runs
            jobs.append((("wit", "WitnessOneCycle"), "WitnessOneCycle") + run_model(sc, SEQ_Q, ["WitnessOneCycle"]))
            for d, (c, inv) in DEVIATIONS.items():
                jobs.append((("dev", d), inv) + run_model(
                    sc, dict(SEQ_Q if c == "seq" else JIT_Q, dev='{"%s"}' % d), INVARIANTS))

            def side(job):
                key, expect, mod, cfg = job
                if key[0] == "exh":
                    return key, None, T.tlc(sc, mod, cfg, workers=8, args=["-coverage", "1"], timeout=3000,
                                            java_opts=JAVA_OPTS)
                res = T.tlc(sc, mod, cfg, workers=2, timeout=900, java_opts=JAVA_OPTS)
                return key, expect in res.violated, res
            with ThreadPoolExecutor(max_workers=len(jobs)) as pool:
                side_results = list(pool.map(side, jobs))
            exh = {}
            seen_witness = set()
            for (kind, what), ok, res in side_results:
                if kind == "exh":
                    if not res.complete or res.violated:
                        raise T.MachineryError("design model RrStats (%s) failed: %s\n%s"
                                               % (what, res.violated, res.out[-2500:]))
                    ac = res.action_counts()
                    for a in ["AddFirst", "AddNext"] + (["Report"] if cfgs[what]["r"] > 0 else []):
                        if ac.get(a, (0, 0))[1] == 0:
                            raise T.MachineryError("action %s never taken in config %s" % (a, what))
                    seen_witness |= {w[1] for w in res.printed("WITNESS")}
                    exh[what] = res
                elif not ok:
                    if kind == "wit":
                        raise T.MachineryError("vacuity: witness %s not violated\n%s" % (what, res.out[-1200:]))
                    raise T.MachineryError("deviation %s does not break %s in the model\n%s"
                                           % (what, DEVIATIONS[what][1], res.out[-1200:]))
            missing = sorted(set(WITNESSES) - seen_witness)
            if missing:
                raise T.MachineryError("vacuity: witnesses never violated in the exhaustive runs: %s" % missing)

            phase("tlc_design")
            # 2. spec -> code ---------------------------------------------------------
            known_classes = {k["signature"].get("class") for k in rep.known}
            dev = '{"NoCycles"}' if "highest_sequence_without_cycles" in known_classes else "{}"
            nsim = 500 if thorough else 100
            mod, cfg = run_model(sc, dict(SIM, dev=dev))
            sim, behs = T.simulate(sc, mod, cfg, num=nsim, depth=49, seed=seed(), timeout=900, workers=8)
            if not behs:
                raise T.MachineryError("no simulated behaviours\n" + sim.out[-2000:])
            items = []
            agree = {}
            lock_steps = 0
            first_div = None

            def cmp(name, exp, got):
                a = agree.setdefault(name, [0, 0])
                a[0] += 1
                if got is None:
                    agree.setdefault(name + "_unobservable", [0, 0])[0] += 1
                elif exp == got:
                    a[1] += 1
                return got is None or exp == got

            for beh in behs:
                hist, acts = history_from_behaviour(beh)
                if hist is None:
                    continue
                internals = []
                tr = execute(hist, internals)
                tr["id"] = len(items) + 1
                tr["src"] = "tlc-simulate"
                items.append((tr, hist))
                for a, st, internal in zip([x for x in acts if x["op"] in ("add", "report")], tr["steps"], internals):
                    lock_steps += 1
                    o = a["obs"]
                    okstep = True
                    if a["op"] == "add" and internal is not None:
                        okstep &= cmp("received", o["received"], internal["received"])
                        okstep &= cmp("base_seq", o["base"], internal["base"])
                        okstep &= cmp("max_seq", o["max"], internal["max"])
                        okstep &= cmp("cycles", o["cycles"], internal["cycles"])
                        okstep &= cmp("jitter_q4", o["jq4"], internal["jq4"])
                    elif a["op"] == "report" and st.get("reps"):
                        b = st["reps"][0]
                        okstep &= cmp("rr_fraction", a["fraction"], b["fl"])
                        okstep &= cmp("rr_lost", o["lost"], b["pl"])
                        okstep &= cmp("rr_highest", o["highest"], b["hh"] * 65536 + b["hl"])
                        okstep &= cmp("rr_jitter", o["jitter"], b["jh"] * 65536 + b["jl"])
                    if not okstep and first_div is None:
                        first_div = {"behaviour": tr["id"], "act": a, "code": internal or st}
            nlock = len(items)
            phase("simulate_and_lockstep")

            # 3. code -> spec ------------------------------------------------------------
            for name, h in fixed_histories():
                tr = execute(h)
                tr["id"] = len(items) + 1
                tr["src"] = name
                items.append((tr, h))
            nrand = 2000 if thorough else 450
            classes = ["plain", "transit0", "wrapts", "wrapts", "bigjump", "plain", "transit0"]
            for i in range(nrand):
                klass = "longloss" if i % 40 == 7 else classes[i % len(classes)]
                h = gen_history(r, klass)
                if len(h["streams"]) >= 2 and i % 2 == 0:
                    # the last stream is the retransmission (RTX) stream of the first: still a stream of
                    # its own for the statistics, and the media stream must not count its packets
                    h["streams"][-1]["rtx_of"] = 1
                tr = execute(h)
                tr["id"] = len(items) + 1
                tr["src"] = "random-" + klass + ("+rtx" if h["streams"][-1].get("rtx_of") else "")
                items.append((tr, h))

            phase("random_histories")
            first, tstates = judge(sc, rep, items)
            phase("trace_validation")
            nreports = sum(1 for t, _ in items for s in t["steps"] if s["op"] == "report" and s["sent"])
            nblocks = sum(len(s["reps"]) for t, _ in items for s in t["steps"] if s["op"] == "report")
            if nblocks == 0:
                raise T.MachineryError("the receiver never sent a receiver report: the harness no longer drives _run_rtcp")

            # 4. binding self-test ----------------------------------------------------------
            bind = {}
            bad = copy.deepcopy(slim(items[0][0]))
            bad["id"] = 1
            bad["skip"] = []
            bad["steps"] = bad["steps"][:1]
            bad["steps"][0]["recv"] += 5
            tests = [("C18.received", bad)]
            for t, _ in items:
                if first[t["id"]][0] != "ok":
                    continue
                idx = [i for i, s in enumerate(t["steps"]) if s["op"] == "report" and s["reps"]]
                if not idx:
                    continue
                for field, clause, delta in (("pl", "C18.lost", 1), ("fl", "C18.fraction", 1),
                                             ("hh", "C18.ext_highest", 1), ("jl", "C18.jitter", 7)):
                    b2 = copy.deepcopy(slim(t))
                    b2["id"] = len(tests) + 1
                    b2["steps"][idx[0]]["reps"][0][field] += delta
                    tests.append((clause, b2))
                b2 = copy.deepcopy(slim(t))
                b2["id"] = len(tests) + 1
                b2["steps"][idx[0]] = {"op": "report", "sent": 0, "failed": 1, "reps": []}
                tests.append(("C18.fits/serialise_failed", b2))
                break
            _, bv = T.validate_traces(sc, "TraceRrStats", TRACE_CFG, [t for _, t in tests], timeout=300)
            for clause, t in tests:
                got = bv.get(t["id"], ("?", 0))[0]
                bind[clause] = got
                if got != clause:
                    raise T.MachineryError("binding self-test: corrupted trace judged %r, expected %r" % (got, clause))
            if len(tests) < 2:
                raise T.MachineryError("binding self-test: no accepted trace with a report block to corrupt")
            phase("binding")

        rep.coverage = {
            "states": sum(e.distinct for e in exh.values()),
            "transitions": sum(e.generated for e in exh.values()),
            "exhaustive": True,
            "configs": {k: {"states": e.distinct, "transitions": e.generated, "depth": e.depth,
                            "wall_s": round(e.wall, 1), "constants": {c: cfgs[k][c] for c in
                                                                      ("seqmod", "tsmod", "n", "r", "fs", "j", "ft", "ts", "ar",
                                                                       "lostmin", "lostmax")},
                            "action_coverage": {a: v[1] for a, v in e.action_counts().items()}}
                        for k, e in exh.items()},
            "invariants": INVARIANTS,
            "witnesses_violated": sorted(WITNESSES),
            "deviations_caught": {d: DEVIATIONS[d][1] for d in DEVIATIONS},
            "lockstep_deviations": dev,
            "lockstep_behaviours": nlock, "lockstep_steps": lock_steps,
            "lockstep_agreement": {k: "%d/%d" % (v[1], v[0]) for k, v in sorted(agree.items())
                                   if not k.endswith("_unobservable")},
            "lockstep_unobservable": {k: v[0] for k, v in agree.items() if k.endswith("_unobservable")},
            "lockstep_first_divergence": first_div,
            "traces_validated_against_impl": len(items),
            "trace_events_validated": sum(len(t["steps"]) for t, _ in items),
            "reports_sent_by_code": nreports, "report_blocks_judged": nblocks,
            "trace_validation_states": tstates,
            "traces_first_verdict": _count(first),
            "binding_selftest": bind,
            "phase_wall_s": phases,
            "samples": [items[0][0]["steps"][:6], items[-1][0]["steps"][:6]],
        }
        rep.assumptions = [
            "the driver's map from ideal offsets to real values (seq0 + x mod 2^16, tso + t mod 2^32, time.time() = (a0 + A + 0.25) / clockrate) is correct; the trace logs offsets so that TLC integers stay below 2^31",
            "histories keep every arrival within half the sequence space of the highest sequence number (never exactly half) and timestamp / arrival spans below 2^25 ticks per trace; larger arrival clock jumps only disable the jitter clause",
            "RtcpPacket.parse reads back the report the receiver sent; reports exist only for SSRCs with at least one packet",
            "jitter: tolerance 1 and two readings of the arrival difference (previous in-order packet / previous packet that began a timestamp), one of which must fit all reports of a stream",
            "kind=audio receiver (no NACK/REMB machinery) with an opaque codec of clock rate 8000/48000/90000",
        ]
        return rep.finish()
    except T.MachineryError as e:
        return rep.finish(machinery_error=e)


def _count(first):
    c = {}
    for v, _ in first.values():
        c[v] = c.get(v, 0) + 1
    return c


def replay(path):
    """Re-execute a saved history on the current tree and judge it again."""
    obj = json.load(open(path))
    h = obj["replay"]["history"]
    tr = execute(h)
    tr["id"] = 1
    tr["skip"] = obj["replay"]["trace"].get("skip", [])
    with T.Scratch() as sc:
        _, v = T.validate_traces(sc, "TraceRrStats", TRACE_CFG, [slim(tr)])
    verdict, pos = v.get(1, ("machinery", 0))
    if verdict == "ok":
        print("replay: trace accepted on the current tree")
        return 0
    if verdict.startswith("machinery"):
        print("MACHINERY-ERROR property=C18 replay verdict %s" % verdict)
        return 2
    print("VIOLATION property=C18 replay=%s clause=%s class=%s step=%s" % (
        path, verdict, classify(h, tr, verdict, pos), tr["steps"][pos - 1]))
    return 1
