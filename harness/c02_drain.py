"""C02 - traffic always drains: no stall or deadlock after any fault history.  See harness/sctp_check.py (shared SCTP / data-channel check)."""
MANIFEST = dict(
    technique='TLA+ model SctpAssoc.tla model-checked with TLC: invariants NoDeadStall / NoLoss and the liveness property healed ~> quiescent under fairness; lock-step replay into real RTCSctpTransport pairs; every execution ends with heal-and-drain and is validated by TraceDataChannel.tla (quiescence clauses) with TLC',
    text='TLC proves for the modelled congestion-control and retransmission design (flight size, cwnd, gap acks, miss counting, fast retransmit, T3, flush) that a connected association with work left always has a timer armed or a datagram in flight, loses nothing reliable, and drains after the network heals (liveness under weak fairness), within small constants; the real code is bound by lock-step agreement and by heal-and-drain at the end of every recorded execution, judged by the TLA+ clauses stall / lost / buffered_nonzero.',
    note='Trusted: TLC; the in-memory network and virtual-time loop of harness/sctp_env.py standing in for DTLS/UDP; the event recorder. The design-level result is exhaustive only within the stated constants and the in-flight bound; conformance of the code is sampled (lock-step replays of TLC behaviours, seeded random programs and fault schedules, saved regression schedules).',
    design_ref='5/C02')

from . import sctp_check  # noqa: E402


def run():
    return sctp_check.run('C02')


def replay(path):
    return sctp_check.replay('C02', path)
