"""C08 - SCTP packets round-trip exactly; corrupted packets are rejected by checksum.

Specs: specs/SctpWire.tla (independent RFC 4960/3758/6525 wire layout + CRC32c, written
in TLA+), specs/TraceSctpWire.tla (total verdict function over recorded call traces).

quick / thorough:
  1. TLC exhaustively checks the wire model's own lemmas (Decode(Encode(v)) = Expand(v),
     alignment, length fields, both padding rules, burst rejection on the smallest
     packets) over a bounded value domain; witness invariants must be violated;
     `-coverage 1` on the witness configuration, per-action state counts on the main one.
  2. spec -> code: every value TLC enumerated (state dump of the exhaustive run) is built
     with the real chunk classes, serialised with the real serialize_packet, parsed with
     the real parse_packet and re-serialised; bytes are compared with the model's
     Encode(v) (lock-step agreement).
  3. code -> spec: seeded random / systematic values at REAL sizes (user data 1..1200,
     every chunk type, flags 0..255, parameter lists with all length residues, gap /
     duplicate / stream lists, 32-bit boundary values) and bursts of 1..32 altered bits
     (all positions of the shortest packets, sampled positions of the others) are
     executed on the real code, recorded as call traces and judged by TraceSctpWire.tla
     with TLC.  Only its clauses produce VIOLATION.
  4. binding self-test: corrupted copies of one recorded trace must be rejected with the
     expected clause.
"""
MANIFEST = dict(
    technique="TLA+ wire model SctpWire.tla (RFC 4960/3758/6525 layouts and CRC32c as operators over byte sequences) model-checked with TLC over a bounded value domain; TLC-enumerated values replayed through the real chunk classes / serialize_packet / parse_packet; recorded call traces judged by TraceSctpWire.tla (TLC trace validation)",
    text="TLC proves the wire model's round-trip, alignment, length-field and padding lemmas for every value of a bounded domain (all chunk types, parameter lengths modulo 4, list lengths 0..3/4, boundary field values). Every enumerated value and seeded random values at real sizes (user data 1..1200 bytes, flags 0..255, long parameter/gap/duplicate/stream lists) are built, serialised, parsed and re-serialised by the real code; TLC judges each recorded call against the property clauses (parsed fields = built fields, re-serialised bytes identical) and judges every recorded burst corruption (1..32 altered bits, all positions of the shortest packets, sampled positions elsewhere) as required-rejected. Byte-exact agreement with the RFC layout operator Encode is measured but is not a violation by itself.",
    note="Bounded and sampled, not a proof over all payload bytes. Trusted: TLC, the harness' construction of chunk objects from values and its projection of parsed objects to fields, google_crc32c. CRC32c's burst-detection guarantee is a property of the polynomial that the spec assumes; the check observes it on enumerated/sampled bursts (bit order: least significant bit of each byte first, RFC 4960 App. B). serialize_packet takes one chunk, so library-built packets carry one chunk; bundles are probed as a non-fatal agreement measure only.",
    design_ref="5/C07-C08-C16, 6")

import concurrent.futures  # noqa: E402
import copy  # noqa: E402
import json  # noqa: E402
import os  # noqa: E402
import re  # noqa: E402
import signal  # noqa: E402
import threading  # noqa: E402
import time  # noqa: E402

from . import common  # noqa: F401,E402  (sets sys.path for aiortc)
from .common import Report, rng, tier  # noqa: E402
from . import tlc as T  # noqa: E402

# --------------------------------------------------------------------------- configs

MODEL_CONSTS = {
    "quick": dict(MaxParams=2, MaxVLen=5, MaxList=3, MaxData=9, Flags="{0, 7, 255}", NProf=8,
                  BurstLens="{1, 2, 9, 32}"),
    "thorough": dict(MaxParams=3, MaxVLen=6, MaxList=5, MaxData=12, Flags="{0, 1, 7, 128, 255}", NProf=8,
                     BurstLens="{%s}" % ", ".join(str(i) for i in range(1, 33))),
    "witness": dict(MaxParams=2, MaxVLen=2, MaxList=1, MaxData=2, Flags="{0}", NProf=1, BurstLens="{1, 32}"),
    "trace": dict(MaxParams=0, MaxVLen=0, MaxList=0, MaxData=1, Flags="{0}", NProf=1, BurstLens="{}"),
}
LEMMAS = ["RoundTrip", "ReEncode", "Aligned", "LengthFields", "ParamPadding", "BurstRejected", "StraddleUndetected",
          "CrcKnownAnswer"]
WITNESSES = ["WitnessNoChunkPadding", "WitnessNoInnerPadding", "WitnessNoTiny", "WitnessNoBundle"]
KINDS = ["data", "init", "sack", "params", "shutdown", "body", "reconfig", "fwd", "bundle", "tiny"]


def _consts(name):
    c = MODEL_CONSTS[name]
    return "CONSTANTS\n" + "".join(" %s = %s\n" % (k, v) for k, v in c.items())


def model_cfg(name, invariants):
    return ("SPECIFICATION Spec\n" + _consts(name) + "".join("INVARIANT %s\n" % i for i in invariants)
            + "CHECK_DEADLOCK FALSE\n")


def trace_cfg(crcmax):
    return "SPECIFICATION TraceSpec\n" + _consts("trace") + " CrcMaxLen = %d\nCHECK_DEADLOCK FALSE\n" % crcmax


# --------------------------------------------------------------------------- values <-> real objects

NAMES = {0: "DataChunk", 1: "InitChunk", 2: "InitAckChunk", 3: "SackChunk", 4: "HeartbeatChunk",
         5: "HeartbeatAckChunk", 6: "AbortChunk", 7: "ShutdownChunk", 8: "ShutdownAckChunk", 9: "ErrorChunk",
         10: "CookieEchoChunk", 11: "CookieAckChunk", 14: "ShutdownCompleteChunk", 130: "ReconfigChunk",
         192: "ForwardTsnChunk"}
PARAM_TYPES = (1, 2, 4, 5, 6, 9)
BODY_TYPES = (8, 10, 11, 14)


def sctp():
    from aiortc import rtcsctptransport
    return rtcsctptransport


def u32(x):
    if not (isinstance(x, int) and 0 <= x < 2 ** 32):
        raise ValueError("not a 32-bit field: %r" % (x,))
    return list(x.to_bytes(4, "big"))


def i32(b):
    return int.from_bytes(bytes(b), "big")


def u16(x):
    if not (isinstance(x, int) and 0 <= x < 2 ** 16):
        raise ValueError("not a 16-bit field: %r" % (x,))
    return x


def fill_byte(pat, i):
    """Fill pattern `pat`, 1-based index i (same table as FillByte in SctpWire.tla; input generation only)."""
    if pat == 1:
        return 0
    if pat == 2:
        return 255
    if pat == 3:
        return (i * 7 + 3) % 256
    if pat == 4:
        return 255 - (i % 251)
    return (i * i + pat) % 256


def blob_bytes(bl):
    if bl["pat"] == 0:
        return bytes(bl["b"])
    return bytes(fill_byte(bl["pat"], i) for i in range(1, bl["n"] + 1))


def explicit(b):
    b = bytes(b)
    return {"n": len(b), "pat": 0, "b": list(b)}


def build_chunk(S, c):
    """Value -> real chunk object, constructed the way the transport does it."""
    t = c["t"]
    cls = getattr(S, NAMES[t])
    if t in BODY_TYPES:
        return cls(flags=c["flags"], body=blob_bytes(c["body"]))
    ch = cls(flags=c["flags"])
    if t == 0:
        ch.tsn = i32(c["tsn"])
        ch.stream_id = c["sid"]
        ch.stream_seq = c["sseq"]
        ch.protocol = i32(c["ppid"])
        ch.user_data = blob_bytes(c["data"])
    elif t in (1, 2):
        ch.initiate_tag = i32(c["tag"])
        ch.advertised_rwnd = i32(c["rwnd"])
        ch.outbound_streams = c["nos"]
        ch.inbound_streams = c["nis"]
        ch.initial_tsn = i32(c["tsn"])
        ch.params = [(p["pt"], blob_bytes(p["pv"])) for p in c["params"]]
    elif t == 3:
        ch.cumulative_tsn = i32(c["tsn"])
        ch.advertised_rwnd = i32(c["rwnd"])
        ch.gaps = [tuple(g) for g in c["gaps"]]
        ch.duplicates = [i32(d) for d in c["dups"]]
    elif t in (4, 5, 6, 9):
        ch.params = [(p["pt"], blob_bytes(p["pv"])) for p in c["params"]]
    elif t == 7:
        ch.cumulative_tsn = i32(c["tsn"])
    elif t == 130:
        ps = []
        for p in c["rparams"]:
            if p["pt"] == 13:
                o = S.StreamResetOutgoingParam(request_sequence=i32(p["rq"]), response_sequence=i32(p["rs"]),
                                               last_tsn=i32(p["last"]), streams=list(p["streams"]))
            elif p["pt"] == 16:
                o = S.StreamResetResponseParam(response_sequence=i32(p["rs"]), result=i32(p["result"]))
            elif p["pt"] == 17:
                o = S.StreamAddOutgoingParam(request_sequence=i32(p["rq"]), new_streams=p["n"])
            else:
                raise ValueError(p["pt"])
            ps.append((p["pt"], bytes(o)))
        ch.params = ps
    elif t == 192:
        ch.cumulative_tsn = i32(c["tsn"])
        ch.streams = [tuple(s) for s in c["streams"]]
    else:
        raise ValueError(t)
    return ch


def proj_chunk(S, ch):
    """Real (parsed) chunk object -> field values (the projection onto the spec's value format)."""
    t = ch.type
    d = {"t": t, "flags": ch.flags}
    if t == 0:
        d.update(tsn=u32(ch.tsn), sid=u16(ch.stream_id), sseq=u16(ch.stream_seq), ppid=u32(ch.protocol),
                 data=explicit(ch.user_data))
    elif t in (1, 2):
        d.update(tag=u32(ch.initiate_tag), rwnd=u32(ch.advertised_rwnd), nos=u16(ch.outbound_streams),
                 nis=u16(ch.inbound_streams), tsn=u32(ch.initial_tsn),
                 params=[{"pt": u16(k), "pv": explicit(v)} for k, v in ch.params])
    elif t == 3:
        d.update(tsn=u32(ch.cumulative_tsn), rwnd=u32(ch.advertised_rwnd),
                 gaps=[[u16(a), u16(b)] for a, b in ch.gaps], dups=[u32(x) for x in ch.duplicates])
    elif t in (4, 5, 6, 9):
        d.update(params=[{"pt": u16(k), "pv": explicit(v)} for k, v in ch.params])
    elif t == 7:
        d.update(tsn=u32(ch.cumulative_tsn))
    elif t in BODY_TYPES:
        d.update(body=explicit(ch.body))
    elif t == 130:
        rps = []
        for k, raw in ch.params:
            o = S.RECONFIG_PARAM_TYPES[k].parse(raw)
            if k == 13:
                rps.append({"pt": 13, "rq": u32(o.request_sequence), "rs": u32(o.response_sequence),
                            "last": u32(o.last_tsn), "streams": [u16(s) for s in o.streams]})
            elif k == 16:
                rps.append({"pt": 16, "rs": u32(o.response_sequence), "result": u32(o.result)})
            else:
                rps.append({"pt": 17, "rq": u32(o.request_sequence), "n": u16(o.new_streams)})
        d.update(rparams=rps)
    elif t == 192:
        d.update(tsn=u32(ch.cumulative_tsn), streams=[[u16(a), u16(b)] for a, b in ch.streams])
    else:
        raise ValueError("unknown chunk type %r" % (t,))
    return d


class Hang(BaseException):
    """The code under test did not return within the CPU limit (e.g. a parser loop that makes no progress)."""


CPU_LIMIT = 1.0   # seconds of process CPU time per call into the library (a real call takes microseconds)


def _on_vtalrm(signum, frame):
    raise Hang("no return within %.1f s of CPU time" % CPU_LIMIT)


def guarded(fn, *args):
    """Call into the code under test under a CPU-time limit (main thread only; virtual timer, so a busy
    machine cannot trigger it)."""
    if threading.current_thread() is not threading.main_thread():
        return fn(*args)
    if signal.getsignal(signal.SIGVTALRM) is not _on_vtalrm:
        signal.signal(signal.SIGVTALRM, _on_vtalrm)
    signal.setitimer(signal.ITIMER_VIRTUAL, CPU_LIMIT)
    try:
        return fn(*args)
    finally:
        signal.setitimer(signal.ITIMER_VIRTUAL, 0)


def flip(data, pos, mask):
    """Alter the bits pos+i (mask bit i set); bit k = bit k%8 (from the LSB) of byte k//8."""
    n = int.from_bytes(data, "little") ^ (mask << pos)
    return n.to_bytes(len(data), "little")


def burst_result(S, data):
    try:
        guarded(S.parse_packet, data)
        return 1
    except ValueError:
        return 0
    except (Exception, Hang):
        return 2


class Stats:
    def __init__(self):
        self.not_buildable = []


def execute(S, v, kind="packet", bursts=(), stats=None):
    """Run one value through the real code; returns the `rt` record and burst records (or None)."""
    try:
        chunks = [build_chunk(S, c) for c in v["chunks"]]
        vt = i32(v["vtag"])
        if kind == "packet":
            data = guarded(S.serialize_packet, v["sport"], v["dport"], vt, chunks[0])
        else:
            # bundle: header + checksum + concatenated chunks, assembled here (the
            # library has no API for it); used for agreement only
            from struct import pack
            from google_crc32c import value as crc32c
            body = b"".join(bytes(c) for c in chunks)
            hdr = pack("!HHL", v["sport"], v["dport"], vt)
            data = hdr + pack("<L", crc32c(hdr + b"\0\0\0\0" + body)) + body
    except (Exception, Hang) as e:  # the library cannot build this value: outside the property
        if stats is not None:
            stats.not_buildable.append({"t": v["chunks"][0]["t"], "error": "%s: %s" % (type(e).__name__, e)})
        return None, None
    rt = {"kind": kind, "v": v, "bytes": list(data), "pok": False, "p": {"err": ""}, "rok": False, "reser": []}
    try:
        sp, dp, tag, parsed = guarded(S.parse_packet, data)
        rt["p"] = {"sport": sp, "dport": dp, "vtag": u32(tag), "chunks": [proj_chunk(S, c) for c in parsed]}
        rt["pok"] = True
    except (Exception, Hang) as e:
        rt["p"] = {"err": "%s: %s" % (type(e).__name__, e)}
        parsed = None
    if rt["pok"] and kind == "packet" and len(parsed) == 1:
        try:
            rt["reser"] = list(guarded(S.serialize_packet, sp, dp, tag, parsed[0]))
            rt["rok"] = True
        except (Exception, Hang) as e:
            rt["rerr"] = "%s: %s" % (type(e).__name__, e)
    return rt, run_bursts(S, data, bursts)


def run_bursts(S, data, bursts):
    """Call the real parse_packet on `data` with each burst applied; [pos, len, maskhi, masklo, result]."""
    return [[pos, ln, mask >> 16, mask & 0xFFFF, burst_result(S, flip(data, pos, mask))] for pos, ln, mask in bursts]


# --------------------------------------------------------------------------- value generation (real sizes)

B32 = [0, 1, 2, 0x7FFFFFFF, 0x80000000, 0x80000001, 0xFFFFFFFE, 0xFFFFFFFF, 0x01020304, 0x0000FFFF, 0x00010000,
       0xFF000000, 0x000000FF]
B16 = [0, 1, 2, 255, 256, 0x7FFF, 0x8000, 0xFFFE, 0xFFFF, 0x1234]


class Gen:
    def __init__(self, r):
        self.r = r

    def w32(self):
        r = self.r
        return u32(r.choice(B32) if r.random() < 0.5 else r.getrandbits(32))

    def w16(self):
        r = self.r
        return r.choice(B16) if r.random() < 0.5 else r.getrandbits(16)

    def blob(self, n):
        r = self.r
        if n <= 24 and r.random() < 0.5:
            return {"n": n, "pat": 0, "b": [r.getrandbits(8) for _ in range(n)]}
        return {"n": n, "pat": r.randint(1, 7), "b": []}

    def plen(self):
        r = self.r
        x = r.random()
        if x < 0.5:
            return r.randint(0, 9)
        if x < 0.9:
            return r.randint(10, 64)
        return r.randint(65, 400)

    def params(self, lens=None):
        r = self.r
        if lens is None:
            lens = [self.plen() for _ in range(r.choice([0, 1, 1, 2, 2, 3, 4, 6, 9]))]
        return [{"pt": r.choice([1, 7, 13, 0x8008, 0xC000, 0xFFFF, 0]) if r.random() < 0.6 else r.getrandbits(16),
                 "pv": self.blob(n)} for n in lens]

    def rparam(self, kind=None, nstreams=None):
        r = self.r
        kind = kind or r.choice([13, 13, 16, 17])
        if kind == 13:
            n = nstreams if nstreams is not None else r.choice([0, 1, 2, 3, 4, 5, 17, 135])
            return {"pt": 13, "rq": self.w32(), "rs": self.w32(), "last": self.w32(),
                    "streams": [self.w16() for _ in range(n)]}
        if kind == 16:
            return {"pt": 16, "rs": self.w32(), "result": self.w32()}
        return {"pt": 17, "rq": self.w32(), "n": self.w16()}

    def packet(self, chunk):
        return {"sport": self.w16(), "dport": self.w16(), "vtag": self.w32(), "chunks": [chunk]}

    def listlen(self):
        r = self.r
        return r.choice([0, 1, 2, 3, 4, 5, 8, 16, 33]) if r.random() < 0.8 else r.randint(34, 300)

    def chunk(self, t, flags=None, **kw):
        r = self.r
        f = r.getrandbits(8) if flags is None else flags
        if t == 0:
            n = kw.get("n") or r.randint(1, 1200)
            return {"t": 0, "flags": f, "tsn": self.w32(), "sid": self.w16(), "sseq": self.w16(), "ppid": self.w32(),
                    "data": self.blob(n)}
        if t in (1, 2):
            return {"t": t, "flags": f, "tag": self.w32(), "rwnd": self.w32(), "nos": self.w16(), "nis": self.w16(),
                    "tsn": self.w32(), "params": self.params(kw.get("lens"))}
        if t == 3:
            g = kw["g"] if "g" in kw else self.listlen()
            d = kw["d"] if "d" in kw else self.listlen()
            return {"t": 3, "flags": f, "tsn": self.w32(), "rwnd": self.w32(),
                    "gaps": [[self.w16(), self.w16()] for _ in range(g)], "dups": [self.w32() for _ in range(d)]}
        if t in (4, 5, 6, 9):
            return {"t": t, "flags": f, "params": self.params(kw.get("lens"))}
        if t == 7:
            return {"t": 7, "flags": f, "tsn": self.w32()}
        if t in BODY_TYPES:
            n = kw["n"] if "n" in kw else r.choice([0, 0, 1, 2, 3, 4, 5, 8, 24, 24, r.randint(0, 300)])
            return {"t": t, "flags": f, "body": self.blob(n)}
        if t == 130:
            if "rparams" in kw:
                return {"t": 130, "flags": f, "rparams": kw["rparams"]}
            return {"t": 130, "flags": f, "rparams": [self.rparam() for _ in range(r.choice([0, 1, 1, 1, 2, 2, 3, 5]))]}
        if t == 192:
            n = kw["n"] if "n" in kw else self.listlen()
            return {"t": 192, "flags": f, "tsn": self.w32(), "streams": [[self.w16(), self.w16()] for _ in range(n)]}
        raise ValueError(t)


def data_lengths(thorough, r):
    if thorough:
        return list(range(1, 1201))
    ls = set(range(1, 41)) | {63, 64, 65, 127, 128, 129, 254, 255, 256, 257, 511, 512, 513, 1021, 1022, 1023, 1024,
                              1025, 1185, 1186, 1187, 1188, 1197, 1198, 1199, 1200}
    while len(ls) < 130:
        ls.add(r.randint(41, 1200))
    return sorted(ls)


def real_size_values(thorough, r):
    """[(src, value)] - systematic sweeps plus seeded random values, all chunk types."""
    g = Gen(r)
    out = []
    types = sorted(NAMES)
    # user data of every length (thorough) / all residues, small and boundary lengths (quick)
    for n in data_lengths(thorough, r):
        out.append(("data-length", g.packet(g.chunk(0, n=n))))
    # every flag value: with every chunk type (thorough) / rotating over the types (quick)
    for f in range(256):
        for t in (types if thorough else [types[f % len(types)], types[(f * 7 + 3) % len(types)]]):
            kw = {"n": r.randint(1, 40)} if t == 0 else {}
            out.append(("flags", g.packet(g.chunk(t, flags=f, **kw))))
    # parameter lists: every pair / triple of length residues, for every TLV-carrying chunk type
    top = 8 if thorough else 4
    for t in PARAM_TYPES:
        for a in range(top):
            out.append(("param-lengths", g.packet(g.chunk(t, lens=[a]))))
            for b in range(top):
                out.append(("param-lengths", g.packet(g.chunk(t, lens=[a, b]))))
                if thorough or t in (1, 6):
                    for c in range(4):
                        out.append(("param-lengths", g.packet(g.chunk(t, lens=[a + 4 * (c % 2), b, c]))))
    # chunk bodies of every small length
    for t in BODY_TYPES:
        for n in range(0, 14 if thorough else 9):
            out.append(("body-lengths", g.packet(g.chunk(t, n=n))))
    # SACK: gap / duplicate counts
    top = 9 if thorough else 5
    for gg in range(top):
        for d in range(top):
            out.append(("sack-lists", g.packet(g.chunk(3, g=gg, d=d))))
    # FORWARD-TSN stream lists, RE-CONFIG parameters (odd stream counts give lengths = 2 mod 4)
    for n in range(0, 20 if thorough else 8):
        out.append(("fwd-lists", g.packet(g.chunk(192, n=n))))
        out.append(("reconfig", g.packet(g.chunk(130, rparams=[g.rparam(13, n)]))))
        out.append(("reconfig", g.packet(g.chunk(130, rparams=[g.rparam(13, n), g.rparam(r.choice([13, 16, 17]))]))))
        out.append(("reconfig", g.packet(g.chunk(130, rparams=[g.rparam(16), g.rparam(13, n), g.rparam(17)]))))
    out.append(("reconfig", g.packet(g.chunk(130, rparams=[g.rparam(13, 135)]))))
    # seeded random values of every type
    for t in types:
        for _ in range((3000 if thorough else 60) if t else (1500 if thorough else 40)):
            out.append(("random", g.packet(g.chunk(t))))
    return out


def burst_masks(r, ln, nrand):
    full = (1 << ln) - 1
    ends = 1 | (1 << (ln - 1))
    ms = {full, ends}
    for _ in range(nrand):
        ms.add(ends | (r.getrandbits(ln) & full))
    return sorted(ms)


def all_bursts(r, nbytes, nrand=1):
    """Every position x every length 1..32, all-ones / two-ends / nrand random interior masks."""
    out = []
    nbits = 8 * nbytes
    for ln in range(1, 33):
        for pos in range(0, nbits - ln + 1):
            for m in burst_masks(r, ln, nrand):
                out.append((pos, ln, m))
    return out


def sampled_bursts(r, nbytes, count):
    out = []
    nbits = 8 * nbytes
    for i in range(count):
        ln = (i % 32) + 1
        x = r.random()
        if x < 0.25:      # in and around the checksum field
            pos = r.randint(max(0, 64 - ln), min(96, nbits - ln))
        elif x < 0.4:     # the last bytes (padding, end of packet)
            pos = r.randint(max(0, nbits - ln - 40), nbits - ln)
        elif x < 0.55:    # headers
            pos = r.randint(0, min(nbits - ln, 8 * 28))
        else:
            pos = r.randint(0, nbits - ln)
        out.append((pos, ln, r.choice(burst_masks(r, ln, 1))))
    return out


def straddle_probe(data, limit):
    """Search heuristic (not an oracle): error patterns confined to a window of 32 bits that the SCTP
    checksum cannot see.  The checksum field lies inside the packet, so for a burst straddling one of its
    boundaries the burst guarantee of CRC32c does not apply; the syndrome is linear in the error pattern and
    depends only on bit positions and packet length, so such patterns are found by elimination over GF(2).
    Returns bursts (pos, len, mask); the real parse_packet is then called on them like on any other burst."""
    from struct import unpack_from
    from google_crc32c import value as crc32c

    def syndrome(d):
        return unpack_from("<L", d, 8)[0] ^ crc32c(d[:8] + b"\0\0\0\0" + d[12:])
    nbits = 8 * len(data)
    base = syndrome(data)
    g = [syndrome(flip(data, i, 1)) ^ base for i in range(nbits)]
    found = set()
    for p in range(0, nbits - 31):
        basis = {}
        for i in range(32):
            v, combo = g[p + i], 1 << i
            while v:
                pb = v.bit_length() - 1
                if pb not in basis:
                    basis[pb] = (v, combo)
                    break
                v ^= basis[pb][0]
                combo ^= basis[pb][1]
            if v == 0:
                found.add(combo << p)
    out = []
    for m in sorted(found)[:limit]:
        lo = (m & -m).bit_length() - 1
        out.append((lo, m.bit_length() - lo, m >> lo))
    return out


def directed_bursts(data):
    """Bursts inside the checksum field that make it all zeros / all ones (fields a careless
    implementation might treat as "no checksum")."""
    ck = int.from_bytes(data[8:12], "little")   # bits 64..95 in the LSB-first numbering
    out = []
    for m in (ck, ck ^ 0xFFFFFFFF):
        if m:
            lo = (m & -m).bit_length() - 1
            out.append((64 + lo, m.bit_length() - lo, m >> lo))
    return out


def burst_values(thorough, r):
    """[(src, value, bursts)]: the shortest packet of (some / every) chunk type with all bursts, others sampled."""
    g = Gen(r)
    mk = g.packet
    exhaustive = [g.chunk(11, n=0), g.chunk(7), g.chunk(0, n=1)]
    if thorough:
        exhaustive += [g.chunk(8, n=0), g.chunk(10, n=3), g.chunk(14, n=0), g.chunk(4, lens=[1]), g.chunk(5, lens=[]),
                       g.chunk(6, lens=[2]), g.chunk(9, lens=[0]), g.chunk(3, g=0, d=0), g.chunk(192, n=0),
                       g.chunk(130, rparams=[g.rparam(16)]), g.chunk(1, lens=[]), g.chunk(2, lens=[3])]
    out = []
    for c in exhaustive:
        out.append(("burst-all-positions", mk(c), "all"))
    per = 600 if thorough else 120
    for t in sorted(NAMES):
        for _ in range(24 if thorough else 2):
            out.append(("burst-sampled", mk(g.chunk(t)), per))
    for n in ([1, 2, 3, 4, 5, 63, 64, 500, 1021, 1198, 1199, 1200] if thorough else [2, 3, 64, 1199, 1200]):
        out.append(("burst-sampled", mk(g.chunk(0, n=n)), per * 2))
    return out


# --------------------------------------------------------------------------- TLC plumbing

def tla_to_json(text):
    """TLA+ value text (records, tuples, ints, strings) -> Python value."""
    text = re.sub(r"(\w+) \|->", r'"\1":', text)
    text = text.replace("[", "{").replace("]", "}").replace("<<", "[").replace(">>", "]")
    return json.loads(text)


def read_dump(text):
    """Text of a `tlc -dump` file -> list of act records."""
    acts = []
    for m in re.finditer(r"^State \d+:\nact = (.*?)(?=\n\n|\Z)", text, re.S | re.M):
        acts.append(tla_to_json(m.group(1)))
    return acts


def judge(traces, crcmax, par, timeout):
    """Validate traces with TraceSctpWire.tla in `par` parallel TLC runs.

    Returns ({id: (verdict, pos, agree)}, total distinct states, total wall of the TLC runs)."""
    if not traces:
        return {}, 0, 0.0
    par = max(1, min(par, len(traces)))

    def cost(t):
        return len(t["rt"]["bytes"]) * 3 + len(t["bursts"]) * 8 + 200
    batches = [[] for _ in range(par)]
    loads = [0] * par
    for t in sorted(traces, key=cost, reverse=True):
        i = loads.index(min(loads))
        batches[i].append(t)
        loads[i] += cost(t)

    def one(batch):
        with T.Scratch(prefix="verif_c08_") as sc:
            res, _ = T.validate_traces(sc, "TraceSctpWire", trace_cfg(crcmax), batch, timeout=timeout)
        out = {}
        for v in res.printed("RESULT"):
            out[v[1]] = (v[2], v[3], v[4], v[5])
        if len(out) != len(batch):
            raise T.MachineryError("trace validation incomplete: %d of %d verdicts\n%s"
                                   % (len(out), len(batch), res.out[-2500:]))
        return out, res.distinct, res.wall

    verdicts, states, wall = {}, 0, 0.0
    with concurrent.futures.ThreadPoolExecutor(max_workers=par) as ex:
        for out, distinct, w in ex.map(one, batches):
            verdicts.update(out)
            states += distinct
            wall = max(wall, w)
    return verdicts, states, wall


def summary(v):
    """Short description of a packet value (for reports)."""
    c = v["chunks"][0]
    d = {"t": c["t"], "cls": NAMES.get(c["t"], "?"), "flags": c["flags"]}
    if "data" in c:
        d["user_data_len"] = c["data"]["n"]
    if "params" in c:
        d["param_value_lens"] = [p["pv"]["n"] for p in c["params"]]
    if "rparams" in c:
        d["rparams"] = [(p["pt"], len(p.get("streams", []))) for p in c["rparams"]]
    if "body" in c:
        d["body_len"] = c["body"]["n"]
    if "gaps" in c:
        d["gaps"], d["dups"] = len(c["gaps"]), len(c["dups"])
    if "streams" in c:
        d["streams"] = len(c["streams"])
    return d


def field_diff(a, b, path=""):
    """First differing field between two values (explanation only; the verdict is TLC's)."""
    if type(a) is not type(b):
        return "%s: %r != %r" % (path, a, b)
    if isinstance(a, dict):
        for k in sorted(set(a) | set(b)):
            if k not in a or k not in b:
                return "%s.%s: missing on one side" % (path, k)
            d = field_diff(a[k], b[k], path + "." + k)
            if d:
                return d
        return None
    if isinstance(a, list):
        if len(a) != len(b):
            return "%s: length %d != %d" % (path, len(a), len(b))
        for i, (x, y) in enumerate(zip(a, b)):
            d = field_diff(x, y, "%s[%d]" % (path, i))
            if d:
                return d
        return None
    return None if a == b else "%s: %r != %r" % (path, a, b)


def expand_value(v):
    v = copy.deepcopy(v)
    for c in v["chunks"]:
        for k in ("data", "body"):
            if k in c:
                c[k] = explicit(blob_bytes(c[k]))
        for p in c.get("params", []):
            p["pv"] = explicit(blob_bytes(p["pv"]))
    return v


# --------------------------------------------------------------------------- the check

def run_model(cfgname):
    """Part 1: TLC checks the wire model's lemmas exhaustively; returns (result, text of the state dump)."""
    with T.Scratch(prefix="verif_c08_") as sc:
        dump = os.path.join(sc.dir, "states")
        exh = T.tlc(sc, "SctpWire", model_cfg(cfgname, LEMMAS), args=["-dump", dump], timeout=3000)
        if not exh.complete or exh.violated:
            raise T.MachineryError("wire model SctpWire fails its own lemmas: %s\n%s" % (exh.violated, exh.out[-2500:]))
        with open(dump + ".dump") as f:
            text = f.read()
    return exh, text


def picks_of(exh, text):
    """The enumerated values (act records of the Pick actions) and per-action numbers of distinct states."""
    dumped = read_dump(text)
    acts = [a for a in dumped if a.get("op") == "pick"]
    bykind = {k: sum(1 for a in acts if a["kind"] == k) for k in KINDS}
    if any(c == 0 for c in bykind.values()) or len(dumped) != exh.distinct:
        raise T.MachineryError("state dump inconsistent / a Pick action never taken: %s, %d dumped of %d states"
                               % (bykind, len(dumped), exh.distinct))
    return acts, bykind


def run_witness(coverage):
    """Non-vacuity: every witness invariant must be violated; with `-coverage 1` (thorough tier; it costs
    ~15 s of TLC start-up) every action must have been taken - in the quick tier the per-action numbers
    of distinct states come from the state dump of the main run only."""
    with T.Scratch(prefix="verif_c08_") as sc:
        wit = T.tlc(sc, "SctpWire", model_cfg("witness", WITNESSES),
                    args=(["-coverage", "1"] if coverage else []) + ["-continue"], workers=4, timeout=900)
    missing = [w for w in WITNESSES if w not in wit.violated]
    if missing:
        raise T.MachineryError("vacuity: witness invariants not violated: %s\n%s" % (missing, wit.out[-1500:]))
    wcov = {k: v[0] for k, v in wit.action_counts().items() if k.startswith("Pick")}
    if coverage and (len(wcov) != len(KINDS) or any(c == 0 for c in wcov.values())):
        raise T.MachineryError("coverage: an action of SctpWire was never taken: %s" % (wcov,))
    return wit, wcov


BIND_WANT = [("C08.parse_roundtrip", 1), ("C08.reserialise", 1), ("C08.corrupt_accepted", 3), ("ok", 4),
             ("machinery.bad_burst", 2)]
BIND_ID0 = 10 ** 8


def binding_traces(base):
    """Five copies of a recorded trace, each corrupted in one field (ids BIND_ID0+1..5)."""
    base = copy.deepcopy(base)
    base["bursts"] = base["bursts"][:3]
    base["src"] = "binding"
    bad = []
    b = copy.deepcopy(base); b["rt"]["p"]["chunks"][0]["flags"] ^= 1; bad.append(b)          # a parsed field
    b = copy.deepcopy(base); b["rt"]["reser"][-1] ^= 1; bad.append(b)                        # a re-serialised byte
    b = copy.deepcopy(base); b["bursts"][1][4] = 1; bad.append(b)                            # a burst "accepted"
    b = copy.deepcopy(base); b["rt"]["bytes"][13] ^= 1; b["rt"]["reser"][13] ^= 1; bad.append(b)   # layout only
    b = copy.deepcopy(base); b["bursts"][0][1] = 33; bad.append(b)                           # not a burst of 1..32 bits
    for i, b in enumerate(bad):
        b["id"] = BIND_ID0 + 1 + i
    return bad


def binding_ok(verdicts):
    got = [verdicts[BIND_ID0 + i] for i in range(1, 6)]
    return [g[:2] for g in got] == [tuple(w) for w in BIND_WANT] and got[3][2] != 0, got


def run():
    rep = Report("C08")
    thorough = tier() == "thorough"
    cfgname = "thorough" if thorough else "quick"
    r = rng(8)
    S = sctp()
    stats = Stats()
    timing = {}
    try:
        t_start = time.time()
        with concurrent.futures.ThreadPoolExecutor(max_workers=2) as pool:
            # 1. design level (TLC, in the background while the real code is exercised)
            f_model = pool.submit(run_model, cfgname)
            f_wit = pool.submit(run_witness, thorough)

            # 3. code -> spec: real sizes, all chunk types, bursts
            t0 = time.time()
            real = []
            for src, v in real_size_values(thorough, r):
                rt, _ = execute(S, v, stats=stats)
                if rt is not None:
                    real.append({"src": src, "rt": rt, "bursts": []})
            nbursts = 0
            probe = [0, 0]
            for src, v, how in burst_values(thorough, r):
                rt, _ = execute(S, v, stats=stats)
                if rt is None:
                    continue
                n = len(rt["bytes"])
                bl = directed_bursts(bytes(rt["bytes"]))
                bl += all_bursts(r, n, 4 if thorough else 1) if how == "all" else sampled_bursts(r, n, how)
                recs = run_bursts(S, bytes(rt["bytes"]), bl)
                nbursts += len(recs)
                real.append({"src": src, "rt": rt, "bursts": recs})
                if how == "all":
                    # directed probe of bursts that straddle the checksum field, one trace per burst
                    for b in straddle_probe(bytes(rt["bytes"]), 1000 if thorough else 6):
                        rec = run_bursts(S, bytes(rt["bytes"]), [b])
                        nbursts += 1
                        probe[0] += 1
                        probe[1] += rec[0][4] != 0
                        real.append({"src": "burst-straddle-probe", "rt": rt, "bursts": rec})
            timing["execute_real_s"] = round(time.time() - t0, 1)

            exh, dump_text = f_model.result()
            wit, wcov = f_wit.result()
        acts, bykind = picks_of(exh, dump_text)   # parsed in this thread: no CPU competes with guarded calls
        del dump_text
        timing["tlc_model_s"] = round(exh.wall, 1)
        timing["tlc_witness_s"] = round(wit.wall, 1)
        timing["part1_wall_s"] = round(time.time() - t_start, 1)

        # 2. spec -> code: replay every enumerated value into the real code
        t0 = time.time()
        traces = []
        lock_agree = 0
        lock_diff = []
        for a in acts:
            kind = "bundle" if len(a["v"]["chunks"]) > 1 else "packet"
            rt, _ = execute(S, a["v"], kind, stats=stats)
            if rt is None:
                continue
            if rt["bytes"] == a["wire"]:
                lock_agree += 1
            elif len(lock_diff) < 5:
                lock_diff.append({"value": summary(a["v"]), "model": a["wire"], "code": rt["bytes"]})
            traces.append({"id": len(traces) + 1, "src": "tlc-" + a["kind"], "rt": rt, "bursts": []})
        n_enum = len(traces)
        for t in real:
            t["id"] = len(traces) + 1
            traces.append(t)
        timing["execute_enumerated_s"] = round(time.time() - t0, 1)

        # judge everything with TLC (the corrupted copies of the binding self-test ride along)
        t0 = time.time()
        crcmax = 4000 if thorough else 160
        base = next((t for t in traces if t["rt"]["kind"] == "packet" and len(t["bursts"]) >= 3 and t["rt"]["pok"]
                     and t["rt"]["rok"]), None)
        extra = binding_traces(base) if base else []
        verdicts, vstates, _ = judge(traces + extra, crcmax, 8 if thorough else 6, timeout=3000)
        timing["tlc_traces_s"] = round(time.time() - t0, 1)

        # 4. binding self-test
        if base is not None and verdicts[base["id"]][0] == "ok":
            okb, got = binding_ok(verdicts)
        else:
            # no intact recorded trace on this tree: corrupt a trace whose parsed side is filled in from the value
            t0 = time.time()
            b0 = next(t for t in traces if len(t["bursts"]) >= 3 and t["rt"]["kind"] == "packet")
            syn = {"id": 0, "src": "synthetic", "bursts": [b[:4] + [0] for b in b0["bursts"]],
                   "rt": dict(b0["rt"], pok=True, rok=True, p=expand_value(b0["rt"]["v"]), reser=list(b0["rt"]["bytes"]))}
            bv, _, _ = judge(binding_traces(syn), 4000, 1, timeout=600)
            okb, got = binding_ok(bv)
            timing["binding_s"] = round(time.time() - t0, 1)
        if not okb:
            raise T.MachineryError("binding self-test: corrupted traces judged %r, expected %r" % (got, BIND_WANT))

        # verdicts -> report
        failing = []
        agree = {"packet": [0, 0], "bundle": [0, 0]}
        disagree = []
        for t in traces:
            v, pos, ag, _ = verdicts[t["id"]]
            k = t["rt"]["kind"]
            agree[k][1] += 1
            if ag == 0:
                agree[k][0] += 1
            elif len(disagree) < 12:
                disagree.append({"src": t["src"], "value": summary(t["rt"]["v"]), "first_differing_byte": ag,
                                 "packet_len": len(t["rt"]["bytes"])})
            if v.startswith("machinery"):
                raise T.MachineryError("trace %d (%s): %s at %d" % (t["id"], t["src"], v, pos))
            if v != "ok":
                failing.append((len(t["rt"]["bytes"]), t["id"], t, v, pos))
        failing.sort(key=lambda x: x[:2])
        for _, _, t, v, pos in failing:
            rt = t["rt"]
            sm = summary(rt["v"])
            detail = {"value": sm, "source": t["src"], "position": pos, "packet_len": len(rt["bytes"])}
            keep = copy.deepcopy(t)
            if v == "C08.corrupt_accepted":
                bu = t["bursts"][pos - 2]
                detail["burst"] = {"bit_position": bu[0], "length": bu[1], "mask": (bu[2] << 16) | bu[3], "result": bu[4]}
                keep["bursts"] = [bu]
            else:
                keep["bursts"] = []
                if v == "C08.parse_roundtrip":
                    detail["why"] = rt["p"].get("err") or field_diff(expand_value(rt["v"]), rt["p"], "packet")
                else:
                    detail["why"] = rt.get("rerr") or field_diff(rt["bytes"], rt["reser"], "bytes")
            sig = {"t": sm["t"], "cls": sm["cls"]}
            if v == "C08.corrupt_accepted":
                sig["burst_class"] = detail["burst"]["class"] = verdicts[t["id"]][3]   # computed by TLC (BurstClass)
            rep.violation(v, sig, detail, keep)

        nb = stats.not_buildable
        types_seen = sorted({t["rt"]["v"]["chunks"][0]["t"] for t in traces})
        dl = sorted({t["rt"]["v"]["chunks"][0]["data"]["n"] for t in traces if t["rt"]["v"]["chunks"][0]["t"] == 0})
        flags_seen = {t["rt"]["v"]["chunks"][0]["flags"] for t in traces}
        pres = set()
        for t in traces:
            ps = t["rt"]["v"]["chunks"][0].get("params", [])
            for i, p in enumerate(ps):
                pres.add((p["pv"]["n"] % 4, "last" if i == len(ps) - 1 else "inner"))
        pk = agree["packet"]
        rep.coverage = {
            "states": exh.distinct, "transitions": exh.generated, "exhaustive": True, "model_depth": exh.depth,
            "model_constants": MODEL_CONSTS[cfgname], "model_lemmas": LEMMAS,
            "witnesses_violated": sorted(set(wit.violated)),
            "action_coverage": bykind, "action_coverage_witness_cfg": wcov,
            "traces_validated_against_impl": len(traces),
            "trace_events_validated": len(traces) + nbursts,
            "trace_validation_states": vstates,
            "lockstep_values": n_enum, "lockstep_bytes_equal_model_encode": lock_agree,
            "lockstep_mismatch_samples": lock_diff,
            "layout_agreement": {"packets_agree": pk[0], "packets": pk[1],
                                 "bundles_agree": agree["bundle"][0], "bundles": agree["bundle"][1],
                                 "crc_computed_by_model_up_to_len": crcmax, "disagreement_samples": disagree},
            "bursts_judged": nbursts,
            "straddle_probe": {"bursts_found_by_gf2_search": probe[0], "not_rejected_by_parse_packet": probe[1]},
            "chunk_types_covered": types_seen, "user_data_lengths_covered": len(dl),
            "user_data_length_range": [dl[0], dl[-1]] if dl else [],
            "flag_values_covered": len(flags_seen),
            "param_length_residues_covered": sorted("%d/%s" % x for x in pres),
            "values_not_buildable": len(nb), "not_buildable_samples": nb[:5],
            "binding_selftest": "corrupted traces judged " + ", ".join("%s@%d" % g[:2] for g in got),
            "timing": timing,
            "samples": [_sample(traces[0]), _sample(traces[n_enum]), _sample(traces[-1])],
        }
        rep.assumptions = [
            "CRC32c detects every burst of up to 32 altered bits: a property of the polynomial, assumed by the spec; "
            "observed here on the enumerated/sampled bursts only (bit order: LSB of each byte first, RFC 4960 App. B)",
            "rejected = parse_packet raises ValueError (what RTCSctpTransport._handle_data treats as drop)",
            "the harness' construction of chunk objects from values and projection of parsed objects to fields",
            "library-built packets carry one chunk (serialize_packet); bundles are an agreement probe only",
            "values the library refuses to serialise are outside the property (counted as values_not_buildable)",
            "fill patterns of user data / parameter values are generated by the harness and expanded independently by TLC",
        ]
        if pk[0] != pk[1] or agree["bundle"][0] != agree["bundle"][1] or lock_agree != n_enum:
            print("NOTE property=C08 agreement with the RFC layout model is not 100%%: packets %d/%d, bundles %d/%d, "
                  "lock-step %d/%d (not a violation by itself; see evidence layout_agreement)"
                  % (pk[0], pk[1], agree["bundle"][0], agree["bundle"][1], lock_agree, n_enum))
        if nb:
            print("NOTE property=C08 %d generated values could not be serialised by the library: %s" % (len(nb), nb[0]))
        return rep.finish()
    except T.MachineryError as e:
        return rep.finish(machinery_error=e)


def _sample(t):
    rt = t["rt"]
    return {"src": t["src"], "value": summary(rt["v"]), "bytes": rt["bytes"][:48], "packet_len": len(rt["bytes"]),
            "bursts": t["bursts"][:3]}


def replay(path):
    """Re-execute a saved failing trace on the current tree and re-judge it with TLC."""
    obj = json.load(open(path))
    t = obj["replay"]
    S = sctp()
    bursts = [(b[0], b[1], (b[2] << 16) | b[3]) for b in t.get("bursts", [])]
    rt, recs = execute(S, t["rt"]["v"], t["rt"].get("kind", "packet"), bursts=bursts)
    if rt is None:
        print("replay: the library no longer builds this value")
        return 0
    verdicts, _, _ = judge([{"id": 1, "src": "replay", "rt": rt, "bursts": recs}], 4000, 1, timeout=600)
    v, pos, ag, info = verdicts.get(1, ("machinery", 0, 0, ""))
    if v == "ok":
        print("replay: trace accepted on the current tree (layout agreement: %s)" % ("yes" if ag == 0 else "no"))
        return 0
    print("VIOLATION property=C08 replay=%s clause=%s position=%d %s value=%s" % (path, v, pos, info, summary(rt["v"])))
    return 1
