"""A pair of real RTCSctpTransport objects over a driver-controlled network.

Nothing in /repo is instrumented: the transports are built on fake DTLS objects whose
`_send_data` puts datagrams into `Net`; the driver decides their fate.  All events the
application could observe are recorded as a flat event list (the trace) which
TraceDataChannel.tla judges.
"""
import asyncio

from . import common  # noqa: F401
from .vloop import ShimTime, VLoop

STATES = {"connecting": 0, "open": 1, "closing": 2, "closed": 3}


class FakeIce:
    def __init__(self, role):
        self.role = role


class FakeDtls:
    def __init__(self, env, name, role):
        self.env = env
        self.name = name
        self.state = "connected"
        self.transport = FakeIce(role)
        self.receiver = None

    def _register_data_receiver(self, r):
        self.receiver = r

    def _unregister_data_receiver(self, r):
        if self.receiver is r:
            self.receiver = None

    async def _send_data(self, data):
        if self.state != "connected":
            raise ConnectionError("Cannot send encrypted data, not connected")
        self.env.net_add(self.name, bytes(data))


class Env:
    """Two endpoints "A" (client, odd ids) and "B" (server, even ids)."""

    def __init__(self, origin_a=None, origin_b=None, tag_a=0x1234, tag_b=0x5678):
        import aiortc.rtcsctptransport as S
        self.S = S
        self.loop = VLoop()
        asyncio.set_event_loop(self.loop)
        self._saved_time = S.time
        S.time = ShimTime(self.loop)
        self.events = []          # the trace (flat list of observable events)
        self.net = []             # in-flight datagrams: dict(id, src, data)
        self.npkt = {"A": 0, "B": 0}
        self.chan = {}            # token -> {"A": obj or None, "B": obj or None, params}
        self.obj_token = {}       # id(channel object) -> (token, side)
        self.ntoken = 0
        self.sent = {}            # (token, side) -> list of (msgid, payload, delivered)
        self.nmsg = 0
        self.step_no = 0
        self.healed = False
        self.dtls = {"A": FakeDtls(self, "A", "controlling"), "B": FakeDtls(self, "B", "controlled")}
        self.ep = {}
        for name in "AB":
            self.ep[name] = S.RTCSctpTransport(self.dtls[name])
        self.origin = {}
        for name, o, tag in (("A", origin_a, tag_a), ("B", origin_b, tag_b)):
            t = self.ep[name]
            if o is not None:
                t._local_tsn = o
                t._last_sacked_tsn = S.tsn_minus_one(o)
                t._advanced_peer_ack_tsn = S.tsn_minus_one(o)
                t._reconfig_request_seq = o
            t._local_verification_tag = tag
            self.origin[name] = t._local_tsn
            t.on("datachannel", self._mk_on_datachannel(name))
        self._last_state = {}
        self._last_dlv_index = {}
        self._buf0 = {}
        self._sent_this_step = {}
        self._lows = {}

    def close(self):
        self.S.time = self._saved_time
        try:
            self.loop.close()
        finally:
            asyncio.set_event_loop(None)

    @staticmethod
    def peer(e):
        return "B" if e == "A" else "A"

    # -- network ------------------------------------------------------------------
    def net_add(self, src, data):
        self.npkt[src] += 1
        self.net.append({"id": (src, self.npkt[src]), "src": src, "data": data})

    def find_pkt(self, src, k):
        for p in self.net:
            if p["id"] == (src, k):
                return p
        return None

    # -- event recording ----------------------------------------------------------
    def ev(self, **kw):
        self.events.append(kw)

    def _mk_on_datachannel(self, side):
        def on_dc(channel):
            # pair with the creating object on the other side by stream id
            creator = None
            for tok, c in self.chan.items():
                o = c[self.peer(side)]
                if o is not None and c[side] is None and o.id == channel.id and not c["params"]["negotiated"] \
                        and c["creator"] == self.peer(side) and not c.get("dc_seen"):
                    creator = tok
                    break
            if creator is None:
                self.ev(k="dcevent", e=side, c=-1, same=False, sid=channel.id if channel.id is not None else -1)
                return
            c = self.chan[creator]
            c["dc_seen"] = True
            p = c["params"]
            same = (channel.label == p["label"] and channel.protocol == p["protocol"]
                    and channel.ordered == p["ordered"] and channel.maxRetransmits == p["maxRetransmits"]
                    and channel.maxPacketLifeTime == p["maxPacketLifeTime"])
            c[side] = channel
            self.obj_token[id(channel)] = (creator, side)
            self._attach(channel, creator, side)
            self.ev(k="dcevent", e=side, c=creator, same=bool(same), sid=channel.id)
            self._poll_state(creator, side)
        return on_dc

    def _attach(self, channel, tok, side):
        key = (tok, side)
        self.sent.setdefault(key, [])
        self._last_state[key] = None
        self._lows[key] = 0

        def on_open():
            self.ev(k="openev", e=side, c=tok)

        def on_close():
            self.ev(k="closeev", e=side, c=tok)

        def on_low():
            self._lows[key] += 1
            thr = channel.bufferedAmountLowThreshold
            self.ev(k="lowev", e=side, c=tok, ok=bool(channel.bufferedAmount <= thr))

        def on_message(data):
            self._on_message(tok, side, data)

        channel.on("open", on_open)
        channel.on("close", on_close)
        channel.on("bufferedamountlow", on_low)
        channel.on("message", on_message)

    def _on_message(self, tok, side, data):
        """Identify the received value among the messages sent by the peer on this channel."""
        peer_sent = self.sent.get((tok, self.peer(side)), [])
        mid = -1
        intact = False
        if len(data) >= 12:
            # self-describing payload: "<id>|" prefix
            head = data[:12]
            if isinstance(head, bytes):
                try:
                    head = head.decode("ascii")
                except UnicodeDecodeError:
                    head = ""
            if head[:1] == "#" and "|" in head:
                try:
                    mid = int(head[1:head.index("|")])
                except ValueError:
                    mid = -1
        if mid >= 0:
            # was it sent on this channel by the peer?
            for i, m in enumerate(peer_sent):
                if m[0] == mid:
                    intact = (m[1] == data and type(m[1]) is type(data))
                    m[2] = True
                    self._last_dlv_index[(tok, side)] = max(self._last_dlv_index.get((tok, side), -1), i)
                    break
            else:
                # sent elsewhere?  look it up globally so that A can name the clause
                found = any(m[0] == mid for lst in self.sent.values() for m in lst)
                self.ev(k="msg", e=side, c=tok, m=mid, intact=False, known=bool(found), onchan=False)
                return
            self.ev(k="msg", e=side, c=tok, m=mid, intact=bool(intact), known=True, onchan=True)
            return
        # short messages (incl. empty) cannot carry an id: match an undelivered equal value -
        # on ordered channels preferably one sent after the last delivered message, so that
        # an in-order delivery is never mistaken for a reordering
        last = self._last_dlv_index.get((tok, side), -1) if self.chan[tok]["params"]["ordered"] else -1
        cands = [i for i, m in enumerate(peer_sent) if not m[2] and m[1] == data and type(m[1]) is type(data)]
        pick = [i for i in cands if i > last] or cands
        if pick:
            m = peer_sent[pick[0]]
            m[2] = True
            self._last_dlv_index[(tok, side)] = max(last, pick[0])
            self.ev(k="msg", e=side, c=tok, m=m[0], intact=True, known=True, onchan=True)
            return
        self.ev(k="msg", e=side, c=tok, m=-1, intact=False, known=False, onchan=False)

    def _poll_state(self, tok, side):
        ch = self.chan[tok][side]
        if ch is None:
            return
        s = STATES[ch.readyState]
        key = (tok, side)
        if self._last_state.get(key) != s:
            self._last_state[key] = s
            self.ev(k="state", e=side, c=tok, s=s)

    def _queued_bytes(self, side, ch):
        q = getattr(self.ep[side], "_data_channel_queue", None)
        if q is None:
            return -1
        try:
            return sum(len(d) for (c, pp, d) in q if c is ch and pp != self.S.WEBRTC_DCEP)
        except Exception:
            return -1

    def begin_step(self):
        self.step_no += 1
        self._buf0 = {}
        self._sent_this_step = {}
        for tok, c in self.chan.items():
            for side in "AB":
                ch = c[side]
                if ch is not None:
                    self._buf0[(tok, side)] = ch.bufferedAmount
                    self._lows[(tok, side)] = 0

    def end_step(self):
        """Poll state that has no event of its own; log task exceptions."""
        self.loop.drain()
        for tok, c in self.chan.items():
            for side in "AB":
                ch = c[side]
                if ch is None:
                    continue
                key = (tok, side)
                self._poll_state(tok, side)
                if c.get("sid_logged", {}).get(side) != ch.id and ch.id is not None:
                    c.setdefault("sid_logged", {})[side] = ch.id
                    live = sorted(k for k in getattr(self.ep[side], "_data_channels", {}).keys())
                    self.ev(k="id", e=side, c=tok, sid=ch.id, auto=bool(c["params"]["id"] is None and c["creator"] == side))
                b1 = ch.bufferedAmount
                b0 = self._buf0.get(key, 0)
                sent = self._sent_this_step.get(key, -1)
                lows = self._lows.get(key, 0)
                if b0 != b1 or sent >= 0 or lows:
                    self.ev(k="buf", e=side, c=tok, b0=b0, b1=b1, sent=sent, lows=lows,
                            thr=ch.bufferedAmountLowThreshold, q=self._queued_bytes(side, ch))
        while self.loop.task_exceptions:
            name, msg, exc = self.loop.task_exceptions.pop(0)
            self.ev(k="exc", where="task", name=name, fn=_innermost(exc))

    # -- driver API (each call is one run-to-completion step) ----------------------
    def start(self, which="AB"):
        self.begin_step()
        caps = self.S.RTCSctpCapabilities(maxMessageSize=65536)
        for e in which:
            self.ev(k="start", e=e)
            self._guard("start", self.ep[e].start(caps, 5000))
        self.end_step()

    def _guard(self, where, coro):
        try:
            return self.loop.run(coro)
        except Exception as exc:  # an exception escaping a handler
            self.ev(k="exc", where=where, name=type(exc).__name__, fn=_innermost(exc))
            self.last_exc = exc
            return None

    def create(self, e, label="", protocol="", ordered=True, maxRetransmits=None, maxPacketLifeTime=None,
               negotiated=False, id=None, pair=None):
        """Create a channel on endpoint e.  `pair`: token of the negotiated peer channel."""
        from aiortc.rtcdatachannel import RTCDataChannel, RTCDataChannelParameters
        self.begin_step()
        params = dict(label=label, protocol=protocol, ordered=ordered, maxRetransmits=maxRetransmits,
                      maxPacketLifeTime=maxPacketLifeTime, negotiated=negotiated, id=id)
        rel = "rtx" if maxRetransmits is not None else ("life" if maxPacketLifeTime is not None else "rel")
        try:
            ch = RTCDataChannel(self.ep[e], RTCDataChannelParameters(**params))
        except Exception as exc:
            self.ev(k="create_failed", e=e, name=type(exc).__name__, sid=id if id is not None else -1)
            self.end_step()
            return None
        if pair is not None:
            tok = pair
            self.chan[tok][e] = ch
        else:
            self.ntoken += 1
            tok = self.ntoken
            self.chan[tok] = {"A": None, "B": None, "params": params, "creator": e}
            self.chan[tok][e] = ch
        self.obj_token[id_(ch)] = (tok, e)
        self.ev(k="create", e=e, c=tok, ordered=bool(ordered), rel=rel, negotiated=bool(negotiated),
                sid=id if id is not None else -1, first=bool(pair is None))
        self._attach(ch, tok, e)
        self._poll_state(tok, e)
        self.end_step()
        return tok

    def make_payload(self, size, kind):
        """A self-describing payload of `size` bytes (size 0..11 gives short literal values)."""
        self.nmsg += 1
        mid = self.nmsg
        if size < 12:
            body = ((str(mid)[::-1] + "abcdefghijk")[:size]) if size else ""
            data = body if kind == "str" else body.encode()
            return mid, data
        head = "#%d|" % mid
        fill = (head + "x" * size)[:size - 1] + "$"
        data = fill if kind == "str" else fill.encode()
        return mid, data

    def send(self, e, tok, size, kind="bytes", probe=False, then_close=False):
        """send() one message; then_close: call close() in the same event-loop tick (before the
        flush task scheduled by send() has run)."""
        ch = self.chan[tok][e]
        if ch is None:
            return None
        self.begin_step()
        mid, data = self.make_payload(size, kind)
        nbytes = len(data.encode()) if isinstance(data, str) else len(data)
        try:
            ch.send(data)
        except Exception as exc:
            self.ev(k="send_failed", e=e, c=tok, name=type(exc).__name__, st=STATES[ch.readyState])
            self.end_step()
            return None
        self.sent.setdefault((tok, e), []).append([mid, data, False])
        self._sent_this_step[(tok, e)] = nbytes
        self.ev(k="send", e=e, c=tok, m=mid, n=nbytes, probe=bool(probe))
        if then_close:
            self.ev(k="close", e=e, c=tok, est=bool(self.ep[e].state == "connected"), hasid=bool(ch.id is not None))
            try:
                ch.close()
            except Exception as exc:
                self.ev(k="exc", where="close", name=type(exc).__name__, fn=_innermost(exc))
        self.end_step()
        return mid

    def close_channel(self, e, tok):
        ch = self.chan[tok][e]
        if ch is None:
            return
        self.begin_step()
        self.ev(k="close", e=e, c=tok, est=bool(self.ep[e].state == "connected"), hasid=bool(ch.id is not None))
        try:
            ch.close()
        except Exception as exc:
            self.ev(k="exc", where="close", name=type(exc).__name__, fn=_innermost(exc))
        self.end_step()

    def set_threshold(self, e, tok, thr):
        ch = self.chan[tok][e]
        if ch is None:
            return
        self.begin_step()
        ch.bufferedAmountLowThreshold = thr
        self.end_step()

    def deliver(self, pkt, keep=False):
        """Deliver an in-flight datagram to the other endpoint (keep=True: duplicate)."""
        if not keep:
            self.net.remove(pkt)
        dst = self.peer(pkt["src"])
        self.begin_step()
        r = self.dtls[dst].receiver
        if r is not None:
            self._guard("handle_data", r._handle_data(pkt["data"]))
        self.end_step()

    def has_reconfig(self, pkt):
        try:
            chunks = self.S.parse_packet(pkt["data"])[3]
        except Exception:
            return False
        return any(isinstance(c, self.S.ReconfigChunk) for c in chunks)

    def drop(self, pkt):
        self.net.remove(pkt)
        self.ev(k="drop", src=pkt["src"], reconfig=bool(self.has_reconfig(pkt)))

    def timers(self, e=None):
        res = []
        for h in self.loop.timers():
            owner = getattr(h._callback, "__self__", None)
            side = "A" if owner is self.ep["A"] else ("B" if owner is self.ep["B"] else None)
            if e is None or side == e:
                res.append((side, getattr(h._callback, "__name__", "?"), h))
        return res

    def fire(self, handle):
        self.begin_step()
        try:
            self.loop.fire(handle)
        except Exception as exc:
            self.ev(k="exc", where="timer", name=type(exc).__name__, fn=_innermost(exc))
        self.end_step()

    def shift_sseq(self, tok, value):
        """C17: continue the (still unused) user-data stream sequence numbers of a freshly
        opened ordered channel at `value` on both ends - as if `value` messages had gone
        before.  Only applied at a quiet point (nothing queued or in flight on the stream)."""
        c = self.chan[tok]
        for side in "AB":
            ch = c[side]
            if ch is None or ch.id is None:
                return
        sid = c["A"].id
        for side in "AB":
            t = self.ep[side]
            if any(x.stream_id == sid for x in list(t._sent_queue) + list(t._outbound_queue)):
                return
            st = t._inbound_streams.get(sid)
            if st is not None and st.reassembly:
                return
        for side in "AB":
            t = self.ep[side]
            peer = self.ep[self.peer(side)]
            cur = t._outbound_stream_seq.get(sid, 0)
            t._outbound_stream_seq[sid] = (cur + value) % 65536
            st = peer._get_inbound_stream(sid)
            st.sequence_number = (st.sequence_number + value) % 65536

    def advance(self, dt):
        self.loop.wall += dt

    def stop(self, e):
        self.begin_step()
        self.ev(k="stop", e=e)
        self._guard("stop", self.ep[e].stop())
        self.end_step()

    # -- heal and drain -----------------------------------------------------------
    def heal_and_drain(self, max_steps=4000):
        """No more faults: deliver everything in order, fire timers when idle, until quiescent."""
        self.healed = True
        self.ev(k="heal")
        steps = 0
        while steps < max_steps:
            if self.net:
                self.deliver(self.net[0])
            else:
                ts = self.timers()
                if not ts:
                    break
                self.fire(ts[0][2])
            steps += 1
        return steps

    def quiesce(self):
        """Log the final observation: queues, buffered amounts, states."""
        chans = []
        for tok, c in sorted(self.chan.items()):
            for side in "AB":
                ch = c[side]
                if ch is not None:
                    chans.append({"c": tok, "e": side, "b": ch.bufferedAmount, "s": STATES[ch.readyState]})
        eps = {}
        for e in "AB":
            t = self.ep[e]
            eps[e] = {
                "outq": len(getattr(t, "_outbound_queue", ())),
                "sentq": len(getattr(t, "_sent_queue", ())),
                "dcq": len(getattr(t, "_data_channel_queue", ())),
                "connected": bool(t.state == "connected"),
                "closed": bool(t.state == "closed"),
                "flight": int(getattr(t, "_flight_size", 0)),
                "cwnd": int(getattr(t, "_cwnd", 0)),
            }
        self.ev(k="quiesce", chans=chans, A=eps["A"], B=eps["B"], inflight=len(self.net),
                timers=len(self.timers()))
        return eps


def id_(o):
    return id(o)


def _innermost(exc):
    """Name of the innermost aiortc function on the exception's traceback."""
    fn = "?"
    tb = getattr(exc, "__traceback__", None)
    while tb is not None:
        code = tb.tb_frame.f_code
        if "aiortc" in code.co_filename:
            fn = code.co_name
        tb = tb.tb_next
    return fn
