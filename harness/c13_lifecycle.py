"""C13 - data channel lifecycle: faithful open, forward-only states, exact bufferedAmount.  See harness/sctp_check.py (shared SCTP / data-channel check)."""
MANIFEST = dict(
    technique='TLA+ observable specification DataChannelObs.tla (lifecycle, id, bufferedAmount clauses) evaluated by TLC on executions of real RTCSctpTransport pairs driven by seeded random create/send/close/threshold programs under fault schedules (TraceDataChannel.tla); lifecycle model DcLifecycle.tla (incl. RE-CONFIG loss and retransmission) and teardown model SctpTeardown.tla checked by TLC and replayed in lock-step into real transport pairs (all model variables compared after every action); the repository\'s own data-channel tests recorded by a pytest plugin as a further trace source',
    text='Every datachannel/open/close/bufferedamountlow event, readyState sample, id assignment and bufferedAmount sample of every recorded execution is judged by TLC against the TLA+ clauses (exactly one faithful datachannel event, forward-only states, parity and non-collision of ids, exact buffered amount and threshold crossings, close completes at both ends, association end closes everything). Two known findings (K01, K03) are reported as KNOWN-FINDING by their specific clause.',
    note='Trusted: TLC; the in-memory network and virtual-time loop of harness/sctp_env.py standing in for DTLS/UDP; the event recorder. The design-level result is exhaustive only within the stated constants and the in-flight bound; conformance of the code is sampled (lock-step replays of TLC behaviours, seeded random programs and fault schedules, saved regression schedules).',
    design_ref='5/C13')

from . import sctp_check  # noqa: E402


def run():
    return sctp_check.run('C13')


def replay(path):
    return sctp_check.replay('C13', path)
