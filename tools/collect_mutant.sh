#!/bin/sh
# usage: tools/collect_mutant.sh <tmp id, e.g. C10b> <property> <name>
# Collects a seeded change produced by a sub-agent in /tmp/mw_<tmpid>_out into
# seeded/<property>-<name>/, removes the agent's worktree, runs tools/try_mutant.sh and
# records the outcome in meta.json (ran / detected_by).
T="$1"; P="$2"; N="$3"; D="/verif/seeded/$P-$N"
mkdir -p "$D" && cp /tmp/mw_${T}_out/patch.diff /tmp/mw_${T}_out/demo.py /tmp/mw_${T}_out/meta.json "$D/" || exit 2
git -C /repo worktree remove --force /tmp/mw_$T 2>/dev/null; rm -rf /tmp/mw_$T /tmp/mw_${T}_work
OUT="$(/verif/tools/try_mutant.sh "$D" "$P" 2>&1 | grep -v '^WARNING')"
echo "$OUT" | cut -c1-260
/venv/bin/python - "$D" "$P" "$N" <<PY
import json, re, sys
d, p, n = sys.argv[1:4]
out = """$(echo "$OUT" | sed 's/\\/\\\\/g; s/"""/ /g')"""
m = json.load(open(d + "/meta.json"))
m["property"] = p
m["ran"] = "tools/try_mutant.sh seeded/%s-%s %s" % (p, n, p)
rc = re.search(r"check \S+ on mutant: rc=(\d)", out)
demo_o = re.search(r"demo on original: rc=(\d+)", out); demo_m = re.search(r"demo on mutant:\s+rc=(\d+)", out)
clauses = sorted(set(re.findall(r"clause=(\S+) occurrences=(\d+)", out)))
if rc and rc.group(1) == "1":
    m["detected_by"] = "./check %s --tier quick -> VIOLATION %s" % (p, ", ".join("%s (%s)" % c for c in clauses))
elif rc:
    m["detected_by"] = "NOT DETECTED (check exit %s)" % rc.group(1)
m["demo"] = "original rc=%s, mutant rc=%s" % (demo_o.group(1) if demo_o else "?", demo_m.group(1) if demo_m else "?")
json.dump(m, open(d + "/meta.json", "w"), indent=1, ensure_ascii=False)
print("meta:", m.get("detected_by"))
PY
