#!/bin/sh
# Re-runs every claimed check (quick tier, default seed) against /repo so that the committed
# evidence/*.json come from this tree; prints one line per check.
cd /verif || exit 2
for p in $(cat harness/READY); do
  /usr/bin/time -f "$p %es" ./check "$p" --tier quick 2>&1 | grep -E "^(OK|VIOLATION|MACHINERY|NOTE)|^C[0-9]+ [0-9.]+s" | cut -c1-160
done
