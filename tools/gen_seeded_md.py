"""Regenerates the table of section 10 of DESIGN.md from seeded/*/meta.json (between the markers)."""
import json, glob, os
rows = []
for d in sorted(glob.glob('/verif/seeded/C*')):
    m = json.load(open(os.path.join(d, 'meta.json')))
    det = m.get('detected_by', 'not yet run')
    rows.append('| `%s` | %s | %s | %s | %s |' % (os.path.basename(d), m.get('property', ''), ((m.get('summary') or m.get('description') or '')[:260]).replace('|', '\\|').replace('\n', ' '),
                                               (m.get('needs', '')[:200]).replace('|', '\\|').replace('\n', ' '), det.replace('|', '\\|')))
txt = '| seeded change | property | what it does | needs | caught by |\n|---|---|---|---|---|\n' + '\n'.join(rows) + '\n'
p = '/verif/DESIGN.md'
s = open(p).read()
a = s.index('<!-- SEEDED-BEGIN -->') + len('<!-- SEEDED-BEGIN -->\n'); b = s.index('<!-- SEEDED-END -->')
open(p, 'w').write(s[:a] + txt + s[b:])
print(len(rows))
