"""Regenerates the table of section 8 of DESIGN.md from known_findings.json (between the markers)."""
import json, re, subprocess
k = json.load(open('/verif/known_findings.json'))['findings']
def short(w):
    w = re.sub(r'^fixed: property=\S+ \S+ ', '', w)
    w = re.sub(r'^fixed: property=\S+ ', '', w)
    return (w[:330] + '…') if len(w) > 330 else w
rows = []
for f in sorted(k, key=lambda f: (f['property'], f['status'], f['id'])):
    st = ('fixed by `%s`' % f['commit']) if f['status'] == 'fixed' else '**open finding**'
    rows.append('| %s | %s | %s | %s |' % (f['property'], f['id'], st, short(f['what']).replace('|', '\\|').replace('\n', ' ')))
nfix = sum(1 for f in k if f['status'] == 'fixed'); nopen = len(k) - nfix
ncommits = len(set(f['commit'] for f in k if f['status'] == 'fixed'))
txt = ('%d entries: %d repaired (%d `fix:` commits in /repo; several entries can share one commit), %d open findings '
       'reported as `KNOWN-FINDING` by their specific signature.\n\n| property | id | status | what failed |\n|---|---|---|---|\n' % (len(k), nfix, ncommits, nopen)) + '\n'.join(rows) + '\n'
p = '/verif/DESIGN.md'
s = open(p).read()
a = s.index('<!-- FINDINGS-BEGIN -->') + len('<!-- FINDINGS-BEGIN -->\n'); b = s.index('<!-- FINDINGS-END -->')
open(p, 'w').write(s[:a] + txt + s[b:])
print(len(k), nfix, nopen, ncommits)
