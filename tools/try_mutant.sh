#!/bin/sh
# usage: tools/try_mutant.sh <dir with patch.diff [demo.py]> <property> [tier]
# Applies the seeded change to /repo, runs the demonstration and the check, and reverts.
D="$1"; P="$2"; T="${3:-quick}"
cd /repo || exit 2
if [ -n "$(git status --porcelain --untracked-files=no)" ]; then echo "repo not clean"; exit 2; fi
if [ -f "$D/demo.py" ]; then
  PYTHONPATH=/repo/src timeout 300 /venv/bin/python "$D/demo.py" >/tmp/demo_orig.out 2>&1; echo "demo on original: rc=$? $(tail -1 /tmp/demo_orig.out | cut -c1-150)"
fi
git apply "$D/patch.diff" || { echo "patch does not apply"; exit 2; }
if [ -f "$D/demo.py" ]; then
  PYTHONPATH=/repo/src timeout 300 /venv/bin/python "$D/demo.py" >/tmp/demo_mut.out 2>&1; echo "demo on mutant:   rc=$? $(tail -1 /tmp/demo_mut.out | cut -c1-150)"
fi
cd /verif && ./check "$P" --tier "$T" > /tmp/check_mut.out 2>&1; RC=$?
echo "check $P on mutant: rc=$RC"; grep -E "^(VIOLATION|KNOWN-FINDING|MACHINERY|OK)" /tmp/check_mut.out | cut -c1-260 | head -8
git -C /repo checkout -- . ; git -C /repo status --porcelain --untracked-files=no
