#!/bin/sh
# usage: tools/try_mutant.sh <dir with patch.diff [demo.py]> <property> [tier]
# Runs the demonstration and the check against a scratch worktree of /repo with the seeded
# change applied (VERIF_REPO points the checks at it; /repo itself is not touched, so
# several of these can run concurrently).  Evidence/replays of the mutant run go to a
# scratch directory.  The worktree is removed afterwards.
D="$(cd "$1" && pwd)"; P="$2"; T="${3:-quick}"
WT="$(mktemp -d /tmp/mut_XXXXXX)"; rmdir "$WT"
git -C /repo worktree add -q --detach "$WT" HEAD || exit 2
OUT="$(mktemp -d /tmp/mutout_XXXXXX)"
cleanup() { git -C /repo worktree remove --force "$WT" 2>/dev/null; rm -rf "$WT"; }
trap cleanup EXIT
if [ -f "$D/demo.py" ]; then
  (cd "$WT" && PYTHONPATH="$WT/src" timeout 600 /venv/bin/python "$D/demo.py" >"$OUT/demo_orig.out" 2>&1; echo "demo on original: rc=$? $(tail -1 "$OUT/demo_orig.out" | cut -c1-150)")
fi
git -C "$WT" apply "$D/patch.diff" || { echo "patch does not apply"; exit 2; }
if [ -f "$D/demo.py" ]; then
  (cd "$WT" && PYTHONPATH="$WT/src" timeout 600 /venv/bin/python "$D/demo.py" >"$OUT/demo_mut.out" 2>&1; echo "demo on mutant:   rc=$? $(tail -1 "$OUT/demo_mut.out" | cut -c1-150)")
fi
cd /verif && VERIF_REPO="$WT" VERIF_EVIDENCE_DIR="$OUT/evidence" VERIF_REPLAYS_DIR="$OUT/replays" ./check "$P" --tier "$T" > "$OUT/check_mut.out" 2>&1; RC=$?
echo "check $P on mutant: rc=$RC (output in $OUT)"; grep -E "^(VIOLATION|KNOWN-FINDING|MACHINERY|OK)" "$OUT/check_mut.out" | cut -c1-260 | head -8
exit 0
