"""Replay a saved SCTP op list with a compact per-step state dump (debugging aid)."""
import json, sys
sys.path.insert(0, "/verif")
from harness import sctp_driver as D
from harness.sctp_env import Env

def main():
    path = sys.argv[1]
    start = int(sys.argv[2]) if len(sys.argv) > 2 else 0
    maxlines = int(sys.argv[3]) if len(sys.argv) > 3 else 60
    obj = json.load(open(path))
    if "replay" in obj: obj = obj["replay"]
    ops = [tuple(o) for o in obj["ops"]]
    origin = obj.get("origin", [None, None])
    env = Env(*origin); toks = []
    S = env.S
    oa = {e: env.origin[e] for e in "AB"}
    def rel(x, e): return (x - oa[e]) % 2**32 if x is not None else None
    def show(e):
        t = env.ep[e]; p = env.peer(e)
        return "%s: sentq=%s outq=%s dcq=%d fl=%d cw=%d fwd=%s adv=%s | rcv last=%s mis=%s" % (
            e, [(rel(c.tsn, e), "A" if c._acked else "", "R" if c._retransmit else "", "X" if c._abandoned else "", c._sent_count) for c in t._sent_queue],
            [rel(c.tsn, e) for c in t._outbound_queue], len(t._data_channel_queue), t._flight_size, t._cwnd,
            t._forward_tsn_chunk and rel(t._forward_tsn_chunk.cumulative_tsn, e), rel(t._advanced_peer_ack_tsn, e),
            rel(t._last_received_tsn, p) if t._last_received_tsn is not None else None, sorted(rel(x, p) for x in t._sack_misordered))
    lines = 0
    def desc(p):
        try:
            ch = S.parse_packet(p["data"])[3][0]
        except Exception as ex:
            return "?"
        n = type(ch).__name__
        src = p["src"]
        if n == "DataChunk": return "DATA tsn=%d sid=%d sseq=%d fl=%d len=%d" % (rel(ch.tsn, src), ch.stream_id, ch.stream_seq, ch.flags, len(ch.user_data))
        if n == "SackChunk": return "SACK cum=%d gaps=%s" % (rel(ch.cumulative_tsn, env.peer(src)), ch.gaps)
        if n == "ForwardTsnChunk": return "FWD cum=%d streams=%s" % (rel(ch.cumulative_tsn, src), ch.streams)
        return n
    for i, op in enumerate(ops):
        if op[0] == "heal" and i >= start:
            env.ev(k="heal")
            n = 0
            while n < 4000:
                if env.net:
                    p = env.net[0]
                    if lines < maxlines: print("   heal deliver", p["id"], desc(p)); lines += 1
                    env.deliver(p)
                else:
                    ts = env.timers()
                    if not ts: break
                    if lines < maxlines: print("   heal fire", ts[0][:2]); lines += 1
                    env.fire(ts[0][2])
                if lines < maxlines: print("       ", show("A")); print("       ", show("B")); lines += 2
                n += 1
            continue
        info = ""
        if op[0] in ("deliver", "dup", "drop"):
            p = env.find_pkt(op[1], op[2]); info = desc(p) if p else "(absent)"
        ne = len(env.events)
        D.apply_op(env, op, toks)
        if i >= start and lines < maxlines:
            evs = [e for e in env.events[ne:] if e["k"] in ("msg", "state", "dcevent", "exc", "send_failed")]
            print(i, op, info, [ (e["k"], e.get("e"), e.get("c"), e.get("m", e.get("s"))) for e in evs]); print("       ", show("A")); print("       ", show("B")); lines += 3
    print(env.events[-1])
    env.close()
main()
