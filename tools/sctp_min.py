"""Re-minimise a saved SCTP op list against the current tree and print it compactly."""
import json, sys
sys.path.insert(0, "/verif")
from harness import sctp_driver as D, sctp_judge as J
obj = json.load(open(sys.argv[1]))
if "replay" in obj and isinstance(obj["replay"], dict): obj = obj["replay"]
ops = [tuple(o) for o in obj["ops"]]; origin = obj.get("origin", [None, None])
tr = D.run_ops(ops, *origin)
v, _, _ = J.judge([tr])
print("verdict", v[0])
if v[0][0] != "ok":
    m = J.minimise([list(o) for o in ops], v[0][0], origin, rounds=80)
    print("origin", origin, "len", len(m))
    print(" ".join(json.dumps(o, ensure_ascii=False, separators=(",", ":")) for o in m))
    if len(sys.argv) > 2:
        J.save_regress(sys.argv[2], m, origin, v[0][0], "re-minimised")
